"""Zero-hook sensor for desolver.OdeSystem.

Everything is observed from outside the source tree:
  * TracedOdeSystem subclasses OdeSystem; __setattr__ sees every assignment to `counter`
    (commit / roll-back / restore), to the name-mangled status, dt, solution object and event
    list at the moment it happens; integrate/reset/get_step_interpolant are overridden;
  * the integrator is wrapped in a proxy (its __call__ is the integrator-call boundary) and its
    bound `step` / `update_timestep` are shadowed by logging instance attributes;
  * module collaborators in desolver.differential_system (DenseOutput, handle_events) are
    replaced by logging versions while a Session is active;
  * user callables (rhs, events, callbacks, jacobian) are wrapped by the scenario code.

Each event is a dict {"e": name, ...args, "s": snapshot}; values are raw Python/numpy objects,
interned later by `Interner` into exact, order preserving integers for TLC.
"""
import contextlib
import numpy as np

import desolver as de
import desolver.differential_system as ds
from desolver import exception_types as etypes

_ORIG_DENSE = ds.DenseOutput
_ORIG_HANDLE = ds.handle_events
_ORIG_DIFFRHS = ds.DiffRHS


class LoggedDiffRHS(_ORIG_DIFFRHS):
    """Counts Jacobian requests made through the right-hand-side wrapper (the independent njev counter)."""

    def jac(self, t, y, *args, **kwargs):
        lg = cur()
        if lg is not None:
            lg.jac_requests += 1
        out = super().jac(t, y, *args, **kwargs)
        if lg is not None:
            lg.jac_req_done += 1
        return out


class Log(object):
    def __init__(self):
        self.events = []
        self.enabled = True
        self.rhs_calls = 0      # started
        self.rhs_done = 0       # completed
        self.jac_calls = 0
        self.jac_done = 0
        self.jac_requests = 0
        self.jac_req_done = 0
        self.detail_rhs = False
        self.system = None
        self.rhs_budget = 120000
        self.event_budget = 40000
        self.over = False

    def emit(self, name, **kw):
        if not self.enabled:
            return
        if len(self.events) > self.event_budget:
            if name not in ("Api", "ApiRet"):
                if not self.over:
                    self.over = True
                    raise BudgetExceeded("more than %d events" % self.event_budget)
                return None
        ev = {"e": name}
        ev.update(kw)
        s = self.system
        if s is not None and getattr(s, "_vf_ready", False):
            ev["s"] = s._vf_snapshot()
        self.events.append(ev)
        return ev


_CUR = [None]


def cur():
    return _CUR[0]


class LoggedDenseOutput(_ORIG_DENSE):
    def add_interpolant(self, t, y_interp):
        lg = cur()
        if lg is not None and not isinstance(t, list):
            lg.emit("SolAdd", t=t, t0=getattr(y_interp, "t0", None), t1=getattr(y_interp, "t1", None),
                    before=len(self))
        return super().add_interpolant(t, y_interp)

    def remove_interpolant(self, idx):
        lg = cur()
        n = len(self)
        out = super().remove_interpolant(idx)
        if lg is not None:
            lg.emit("SolRemove", idx=idx if idx >= 0 else n + idx, t=out[0], before=n)
        return out


def _logged_handle_events(sol_tuple, events, consts, direction, is_terminal, attributes):
    lg = cur()
    sol, t_prev, t_next = sol_tuple
    if lg is not None:
        lg.emit("HandleEvents", prev=t_prev, next=t_next)
    out = _ORIG_HANDLE(sol_tuple, events, consts, direction, is_terminal, attributes)
    if lg is not None:
        active, roots, terminate, evs = out
        lg.emit("HandleEventsRet", prev=t_prev, next=t_next, active=[int(i) for i in active],
                roots=[r for r in roots], terminate=bool(terminate))
    return out


@contextlib.contextmanager
def session(detail_rhs=False):
    """Activate logging collaborators; yields the Log."""
    lg = Log()
    lg.detail_rhs = detail_rhs
    prev = _CUR[0]
    _CUR[0] = lg
    ds.DenseOutput = LoggedDenseOutput
    ds.handle_events = _logged_handle_events
    ds.DiffRHS = LoggedDiffRHS
    try:
        yield lg
    finally:
        ds.DenseOutput = _ORIG_DENSE
        ds.handle_events = _ORIG_HANDLE
        ds.DiffRHS = _ORIG_DIFFRHS
        _CUR[0] = prev


class wall_clock(object):
    """Run-away executions that call no user code at all (a loop inside the library that never ends) are cut by the clock: after
    `limit` seconds of wall time inside one API call BudgetExceeded is raised from a SIGALRM handler (worker processes run the
    scenarios in their main thread).  The limit is two orders of magnitude above what a scenario needs on a loaded machine."""
    def __init__(self, limit=240.0):
        self.limit = limit

    def __enter__(self):
        import signal

        def handler(signum, frame):
            raise BudgetExceeded("more than %g s of wall time inside one call" % self.limit)
        try:
            self.prev = signal.signal(signal.SIGALRM, handler)
            signal.setitimer(signal.ITIMER_REAL, self.limit)
            self.armed = True
        except ValueError:          # not in the main thread
            self.armed = False
        return self

    def __exit__(self, *exc):
        import signal
        if self.armed:
            signal.setitimer(signal.ITIMER_REAL, 0.0)
            signal.signal(signal.SIGALRM, self.prev)
        return False


class BudgetExceeded(BaseException):
    """Raised by the wrapped right-hand side when a scenario uses far more evaluations than the unmodified
    library needs (a run-away execution).  A BaseException so that integrate() does not wrap it."""


class WrappedRhs(object):
    """User right-hand side wrapper: the independent evaluation counter, fault injection."""

    def __init__(self, fn, log, jac=None):
        self._fn = fn
        self._log = log
        self.fault_at = None     # raise at the k-th invocation (1-based) of any wrapped callable
        self.fault_exc = None
        if jac is not None:
            self.jac = self._make_jac(jac)

    def _make_jac(self, jac):
        def j(t, y, *a, **kw):
            self._log.jac_calls += 1
            out = jac(t, y, *a, **kw)
            self._log.jac_done += 1
            return out
        return j

    def __call__(self, t, y, *a, **kw):
        lg = self._log
        lg.rhs_calls += 1
        if lg.rhs_calls > lg.rhs_budget:
            raise BudgetExceeded("more than %d right-hand-side evaluations" % lg.rhs_budget)
        fp = lg.fault_plan if hasattr(lg, "fault_plan") else None
        if fp is not None:
            fp.tick("rhs")
        if lg.detail_rhs:
            lg.emit("Rhs", t=t, y=np.array(y, copy=True))
        out = self._fn(t, y, *a, **kw)
        lg.rhs_done += 1
        return out


class FaultPlan(object):
    """Raises `exc` at the k-th invocation (1-based) of any user callable."""

    def __init__(self, k=None, exc=None):
        self.k = k
        self.exc = exc
        self.n = 0
        self.fired_site = None
        self.only = None         # count only the invocations of callables whose site name starts with this (e.g. "event")

    def tick(self, site):
        if self.only is not None and not site.startswith(self.only):
            return
        self.n += 1
        if self.k is not None and self.n == self.k:
            self.fired_site = site
            raise self.exc


class IntegratorProxy(object):
    """Stands in for OdeSystem.integrator; logs the call boundary."""

    def __init__(self, real, log):
        object.__setattr__(self, "_real", real)
        object.__setattr__(self, "_log", log)
        self._patch(real, log)

    @staticmethod
    def _patch(real, log):
        if getattr(real, "_vf_patched", False):
            return
        try:
            real._vf_patched = True
        except Exception:
            return
        if hasattr(real, "step"):
            orig_step = real.step
            depth = [0]

            def step(*a, **kw):
                ts = kw.get("timestep", a[4] if len(a) > 4 else None)
                depth[0] += 1
                if depth[0] == 1:
                    # ncall: user-callable invocations so far in this API call (where a fault plan would be now)
                    log.emit("Attempt", h=ts, ncall=int(getattr(getattr(log, "fault_plan", None), "n", 0) or 0))
                try:
                    out = orig_step(*a, **kw)
                except BaseException as e:
                    if depth[0] == 1:
                        log.emit("AttemptRaise", exc=type(e).__name__)
                    raise
                finally:
                    depth[0] -= 1
                if depth[0] == 0:
                    sd = getattr(real, "solver_dict", None) or {}
                    log.emit("AttemptRet", h=ts, dT=out[1][0], newton=sd.get("newton_iteration_success", None))
                return out
            real.step = step
        if hasattr(real, "update_timestep"):
            orig_ut = real.update_timestep
            d2 = [0]

            def update_timestep(*a, **kw):
                d2[0] += 1
                try:
                    out = orig_ut(*a, **kw)
                finally:
                    d2[0] -= 1
                if d2[0] == 0:
                    log.emit("Controller", newDt=out[0], redo=bool(out[1]))
                return out
            real.update_timestep = update_timestep

    def __call__(self, rhs, t, y, constants, timestep):
        lg = self._log
        real = self._real
        lg.emit("IntegCall", t=t, h=timestep, y=np.array(y, copy=True))
        try:
            out = real(rhs, t, y, constants, timestep=timestep)
        except BaseException as e:
            lg.emit("IntegRaise", exc=type(e).__name__)
            raise
        new_dt, (dT, dY) = out
        lg.emit("IntegRet", newDt=new_dt, dT=dT, h=timestep, dY=np.array(dY, copy=True))
        return out

    def __getattr__(self, name):
        return getattr(object.__getattribute__(self, "_real"), name)

    def __setattr__(self, name, val):
        setattr(object.__getattribute__(self, "_real"), name, val)

    def __bool__(self):
        return True

    # isinstance(system.integrator, <integrator class>) holds as it does without the sensor
    __class__ = property(lambda self: type(object.__getattribute__(self, "_real")))


class LoggingList(list):
    def __init__(self, log, *a):
        super().__init__(*a)
        self._log = log

    def append(self, x):
        super().append(x)
        self._log.emit("EventRec", t=x.t, ev=x.event, y=np.array(x.y, copy=True), n=len(self))


_P = "_OdeSystem__"


class TracedOdeSystem(de.OdeSystem):
    """OdeSystem whose state changes are logged as they happen (no source hooks)."""

    def __init__(self, log, *a, **kw):
        object.__setattr__(self, "_vf_log", log)
        object.__setattr__(self, "_vf_ready", False)
        object.__setattr__(self, "_vf_depth", 0)
        log.system = self
        super().__init__(*a, **kw)
        object.__setattr__(self, "_vf_ready", True)
        log.emit("New")

    # -- state change interception ---------------------------------------------------------
    def __setattr__(self, name, val):
        lg = self._vf_log
        if name == "integrator" and val is not None and not isinstance(val, IntegratorProxy):
            val = IntegratorProxy(val, lg)
        elif name == _P + "events" and not isinstance(val, LoggingList):
            val = LoggingList(lg, val)
        old_counter = self.__dict__.get("counter") if name == "counter" else None
        object.__setattr__(self, name, val)
        if not self._vf_ready:
            return
        if name == "counter":
            lg.emit("Counter", old=old_counter, new=val)
        elif name == _P + "int_status":
            lg.emit("Status", code=_status_code(val))
        elif name == _P + "dt":
            lg.emit("DtAssign", dt=val)

    def _vf_snapshot(self):
        d = self.__dict__
        t = d.get(_P + "t")
        c = d.get("counter", 0)
        sol = d.get(_P + "sol")
        evs = d.get(_P + "events")
        return {
            "counter": c,
            "buf": len(t) if t is not None else 0,
            "tc": t[c] if t is not None and c < len(t) else None,
            "yc": np.array(d[_P + "y"][c], copy=True) if d.get(_P + "y") is not None and c < len(d[_P + "y"]) else None,
            "dt": d.get(_P + "dt"),
            "status": _status_code(d.get(_P + "int_status", 0)),
            "nsol": len(sol) if sol is not None else 0,
            "nev": len(evs) if evs is not None else 0,
            "nfev": self.equ_rhs.nfev,
            "njev": self.equ_rhs.njev,
            "rhsDone": self._vf_log.rhs_done,
            "jacDone": self._vf_log.jac_done,
            "jacReq": self._vf_log.jac_req_done,
            "depth": self._vf_depth,
        }

    # -- call boundaries ----------------------------------------------------------------------
    def integrate(self, t=None, callback=None, eta=False, events=None):
        lg = self._vf_log
        object.__setattr__(self, "_vf_depth", self._vf_depth + 1)
        depth = self._vf_depth
        lg.emit("IntegrateCall", target=(t if t is not None else self.tf), given=t is not None, depth=depth,
                nevents=(0 if events is None else (1 if callable(events) else len(events))),
                ncb=(0 if callback is None else (len(callback) if isinstance(callback, (list, tuple)) else 1)),
                term=([] if events is None else [bool(getattr(ev, "is_terminal", False)) for ev in ([events] if callable(events) else events)]))
        try:
            out = super().integrate(t=t, callback=callback, eta=eta, events=events)
        except BaseException as e:
            object.__setattr__(self, "_vf_depth", depth - 1)
            lg.emit("IntegrateRaise", depth=depth, exc=type(e).__name__, chain=_cause_chain(e))
            raise
        object.__setattr__(self, "_vf_depth", depth - 1)
        lg.emit("IntegrateRet", depth=depth)
        return out

    def reset(self):
        lg = self._vf_log
        lg.emit("ResetCall")
        out = super().reset()
        lg.emit("ResetRet")
        return out

    def get_step_interpolant(self):
        out = super().get_step_interpolant()
        self._vf_log.emit("Interp", n=(len(out[0]) if isinstance(out[0], list) else 1))
        return out


def _status_code(v):
    if isinstance(v, KeyboardInterrupt):
        return 4
    if isinstance(v, etypes.FailedIntegration):
        return 3
    if isinstance(v, BaseException):
        return 5
    try:
        return int(v)
    except Exception:
        return 6


def _cause_chain(e):
    out = []
    seen = 0
    while e is not None and seen < 8:
        out.append(type(e).__name__)
        e = e.__cause__
        seen += 1
    return out


def wrap_event(fn, log, idx):
    def ev(t, y, *a, **kw):
        fp = getattr(log, "fault_plan", None)
        if fp is not None:
            fp.tick("event%d" % idx)
        return fn(t, y, *a, **kw)
    for k in ("is_terminal", "direction", "requires_dstate"):
        if hasattr(fn, k):
            setattr(ev, k, getattr(fn, k))
    ev._vf_idx = idx
    return ev


def wrap_callback(fn, log, idx):
    def cb(system):
        fp = getattr(log, "fault_plan", None)
        log.emit("Callback", i=idx)
        if fp is not None:
            fp.tick("callback%d" % idx)
        out = fn(system) if fn is not None else None
        log.emit("CallbackRet", i=idx)
        return out
    return cb
