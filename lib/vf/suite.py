"""The repository's own test-suite as a trace source (mode T applied to executions the maintainers designed).

`collect()` runs pytest on the tree under observation with the plugin vf.suiteplugin; every OdeSystem a test constructs yields
one trace (vf.scen.normalise format).  `judge()` hands the traces to spec/OdeTrace.tla.  `phase(run, prefixes)` is the entry for
the per-property checks (thorough tier): the traces are collected once per tree content (cache under work/, keyed by a hash of
the tree's desolver/ sources and of the sensor) and the violated clauses with one of `prefixes` are reported for that property.
"""
import hashlib
import json
import os
import shutil
import subprocess
import sys
import time

from vf import core

TESTS = ("desolver/tests",)


def repo_root():
    return os.environ.get("VF_REPO") or "/repo"


def _tree_hash(repo):
    h = hashlib.sha256()
    roots = [os.path.join(repo, "desolver"), os.path.join(core.ROOT, "lib", "vf")]
    for root in roots:
        for d, dn, fn in sorted(os.walk(root)):
            dn.sort()
            if "__pycache__" in d:
                continue
            for f in sorted(fn):
                if f.endswith(".py"):
                    p = os.path.join(d, f)
                    h.update(p.encode())
                    with open(p, "rb") as fh:
                        h.update(fh.read())
    return h.hexdigest()[:20]


def collect(select=None, procs=None, timeout=3000, out_dir=None):
    """Run the tests under observation; returns (records, meta)."""
    repo = repo_root()
    out_dir = out_dir or os.path.join(core.WORK, "suite", "raw_%d" % os.getpid())
    shutil.rmtree(out_dir, ignore_errors=True)
    os.makedirs(out_dir, exist_ok=True)
    env = dict(os.environ)
    env["PYTHONPATH"] = os.path.join(core.ROOT, "lib") + ":" + repo
    env["VF_SUITE_OUT"] = out_dir
    env["PYTHONWARNINGS"] = "ignore"
    env["PYTHONHASHSEED"] = "0"
    for k in ("OMP_NUM_THREADS", "OPENBLAS_NUM_THREADS", "MKL_NUM_THREADS"):
        env[k] = "1"
    cmd = [sys.executable, "-m", "pytest", "-q", "-p", "no:cacheprovider", "-p", "vf.suiteplugin", "--timeout=900",
           "-W", "ignore"]
    procs = procs or min(core.NCPU, 14)
    if select:
        cmd += list(select)
    else:
        cmd += ["-n", str(procs)] + list(TESTS)
    t0 = time.time()
    try:
        p = subprocess.run(cmd, cwd=repo, env=env, stdout=subprocess.PIPE, stderr=subprocess.STDOUT, universal_newlines=True,
                           timeout=timeout)
        tail = p.stdout.strip().splitlines()[-3:]
        rc = p.returncode
    except subprocess.TimeoutExpired:
        raise core.MachineryError("the repository's tests under observation did not finish within %d s" % timeout)
    recs = []
    for f in sorted(os.listdir(out_dir)):
        if f.endswith(".jsonl"):
            with open(os.path.join(out_dir, f)) as fh:
                for line in fh:
                    if line.strip():
                        recs.append(json.loads(line))
    shutil.rmtree(out_dir, ignore_errors=True)
    if rc not in (0, 1) or not recs:
        raise core.MachineryError("pytest under observation failed (rc=%s, %d traces): %s" % (rc, len(recs), " | ".join(tail)))
    meta = {"pytest_rc": rc, "pytest_tail": tail, "wall_s": round(time.time() - t0, 1)}
    return recs, meta


def cached():
    repo = repo_root()
    key = _tree_hash(repo)
    d = os.path.join(core.WORK, "suite")
    os.makedirs(d, exist_ok=True)
    p = os.path.join(d, "traces_%s.json" % key)
    if os.path.exists(p):
        with open(p) as f:
            return json.load(f)
    recs, meta = collect()
    for f in os.listdir(d):
        if f.startswith("traces_"):
            os.remove(os.path.join(d, f))
    tmp = p + ".%d.tmp" % os.getpid()
    with open(tmp, "w") as f:
        json.dump({"recs": recs, "meta": meta}, f)
    os.replace(tmp, p)
    return {"recs": recs, "meta": meta}


def judge(recs, name="suite", shards=8):
    traces = [r["trace"] for r in recs if "trace" in r]
    v, r = core.judge("OdeTrace", {"traces": traces}, name, shards=shards, shard_key="traces")
    return v, r, traces


def phase(run, prefixes, shards=8):
    """Thorough-tier phase of a per-property check: the clauses of this property on the traces of the repository's own tests."""
    data = cached()
    recs = data["recs"]
    v, r, traces = judge(recs, name=run.pid + "_suite", shards=shards)
    run.judge_states += r.distinct
    run.mc_runs.append({"module": "OdeTrace", "judge": True, "cases": v["n"], "distinct": r.distinct, "wall_s": round(r.wall, 2),
                        "source": "traces of the repository's own tests"})
    run.traces += len(traces)
    node = {x["id"]: x.get("node") for x in recs}
    n = 0
    for b in v["bad"]:
        if not any(b["clause"].startswith(p) for p in prefixes):
            continue
        n += 1
        run.violation(b["clause"], "repository test " + str(b["id"]).split("#")[0],
                      {"event_index": b["at"], "event": b["ev"], "trace": b["id"]},
                      replay={"suite_node": node.get(b["id"]), "trace": b["id"]})
    run.notes["suite_traces"] = {"traces": len(traces), "events": sum(len(t["events"]) for t in traces),
                                 "skipped": sum(1 for x in recs if "skipped" in x), "violations_of_this_property": n,
                                 "pytest": data["meta"]}
    return v


def replay_node(run, replay, prefixes):
    """bin/check <id> --replay <file> for a violation found on a suite trace: re-run that one test under observation."""
    node = replay.get("scenario", {}).get("suite_node")
    if not node:
        return False
    recs, meta = collect(select=[node])
    v, r, traces = judge(recs, name=run.pid + "_suite_replay", shards=1)
    run.traces += len(traces)
    for b in v["bad"]:
        if any(b["clause"].startswith(p) for p in prefixes):
            run.violation(b["clause"], "repository test " + str(b["id"]).split("#")[0],
                          {"event_index": b["at"], "event": b["ev"], "trace": b["id"]}, replay={"suite_node": node, "trace": b["id"]})
    return True
