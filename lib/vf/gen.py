"""Scenario generators shared by the OdeSystem-level properties."""
import itertools
import random

FIXED = ["RK4", "Euler", "Midpoint", "Heun's", "Ralston's", "RK5", "Euler-Trap"]
SPLIT = ["ABAS5O6H", "BABS9O7H", "Symplectic Forward Euler"]
ADAPT = ["RK45CK", "DOPRI45", "AHE", "RK87", "RK108", "RK1412"]
FIXIMP = ["BackwardEuler", "CrankNicolson", "ImplicitMidpoint", "GaussLegendre4", "GaussLegendre6", "LobattoIIIA2",
          "LobattoIIIA4", "LobattoIIIB2", "LobattoIIIB4", "LobattoIIIC2", "RadauIA3", "RadauIA5", "RadauIIA3"]
ADIMP = ["LobattoIIIC4", "RadauIIA5"]      # RadauIIA19 is too slow for routine scenarios


def base(method, t0, tf, dt, **kw):
    sc = {"method": method, "dtype": "float64", "problem": "osc", "y0": [1.0, 0.0], "t0": t0, "tf": tf, "dt": dt,
          "dense": False, "rtol": None, "atol": None, "ops": [{"op": "integrate"}]}
    sc.update(kw)
    if sc.get("rtol") is not None:
        # bound the work: a scenario is meant to take hundreds of steps, not tens of thousands (measured on osc/rat over a span of 2:
        # AHE 404 steps at 1e-5 but 40425 at 1e-9; rich(BackwardEuler,3) 630 at 1e-5, 69846 at 1e-11; LobattoIIIC4/RadauIIA5 ~1200 at 1e-9,
        # ~6000 at 1e-11).  A run that exceeds the monitor's event budget is reported as non-terminating, so the budget must stay far
        # above what the unchanged library legitimately needs.
        fl = tol_floor(method)
        if sc["rtol"] < fl:
            k = fl / sc["rtol"]
            sc["rtol"] = fl
            if sc.get("atol") is not None:
                sc["atol"] = sc["atol"] * k
    return sc


def tol_floor(method):
    if isinstance(method, dict):
        return 1e-5 if method["rich"] in ("BackwardEuler", "Euler", "EulerSolver") else 1e-12
    if method in ("AHE", "Adaptive Heun-Euler", "HeunEulerSolver"):
        return 1e-5
    if method in ADIMP:
        return 1e-9
    return 1e-12


def tol_for(method):
    # tolerances are chosen so that a scenario records at most a few hundred steps (the monitor keeps the whole trajectory)
    if isinstance(method, dict):
        if method["rich"] in ("BackwardEuler", "Euler", "EulerSolver"):
            return 1e-3
        if method["rich"] in ("Midpoint", "MidpointSolver", "Heun's", "CrankNicolson"):
            return 1e-5
        return 1e-6
    if method in ("AHE", "Adaptive Heun-Euler", "HeunEulerSolver"):
        return 1e-4
    if method in ADAPT or method in ADIMP:
        return 1e-6
    return None


def with_tol(sc):
    t = tol_for(sc["method"])
    if t is not None and sc.get("rtol") is None:
        sc["rtol"] = t
        sc["atol"] = t
    return sc


SPANS = [(0.0, 1.0), (1.0, 0.0), (-5.0, -3.0), (-3.0, -5.0), (-1.0, 1.0), (1.0, -1.0), (2.0, 4.0), (4.0, 2.0), (-2.0, 0.0), (0.0, -2.0)]


def number(scs, prefix):
    for i, sc in enumerate(scs):
        sc["id"] = "%s%04d" % (prefix, i)
    return scs
