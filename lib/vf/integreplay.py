"""Spec -> code for Integrator.tla: behaviours produced by TLC (-simulate, IntegratorSim.tla) are replayed on real Runge-Kutta
integrator objects.  The model's environment chooses the controller's verdict after every attempt; the replay plays it back through the
integrator's public `adaptation_fn` hook, injects faults from the right-hand side at the model's attempt, and compares, per call, the
steps that were attempted, what was handed back, what was raised and what the cached end slope belongs to."""
import json
import re
import numpy as np
from fractions import Fraction
from vf import core, traced

S = 1.0 / 16.0


class Injected(Exception):
    pass


def behaviours(cfg, num, seed, depth=80, timeout=600):
    r = core.run_tlc("IntegratorSim", cfg, workers=1, timeout=timeout, simulate="num=%d" % num, depth=depth, seed=seed + 1)
    out = set()
    for m in re.finditer(r'<<"VFLOG", "((?:[^"\\]|\\.)*)">>', r.out):
        out.add(m.group(1).encode().decode("unicode_escape"))
    if not out:
        raise core.MachineryError("no behaviours from IntegratorSim/%s:\n%s" % (cfg, r.out[-2000:]))
    m = re.search(r"The number of states generated: (\d+)", r.out)
    return [json.loads(x) for x in sorted(out)], (int(m.group(1)) if m else 0), r


def split_calls(log):
    calls, cur = [], None
    for e in log:
        if e["k"] == "call":
            cur = {"h": e["h"], "attempts": [], "end": None}
            calls.append(cur)
        elif e["k"] == "attempt":
            cur["attempts"].append(e)
        elif e["k"] in ("returned", "raised"):
            cur["end"] = e
    return calls


def mappable(log):
    return not any(e["k"] == "raised" and e["why"] == "fault" and e["during"] == "attempted" for e in log)


def replay(log, method, sign):
    import desolver as de
    from vf import scen
    cls = scen.method_class(method)
    st = {"attempt": 0, "arm": None, "verdicts": [], "validating": False}

    def f(t, y):
        if st["arm"] is not None and st["attempt"] == st["arm"]:
            st["arm"] = None
            raise Injected()
        return np.array([y[1], -y[0]])
    rhs = de.DiffRHS(f)

    def controller(integ):
        if st["validating"] or not st["verdicts"]:
            st["extra"] = st.get("extra", 0) + (0 if st["validating"] else 1)
            return np.float64(1.0), False
        v = st["verdicts"].pop(0)
        return np.float64(sign * v["next"] * S), bool(v["redo"])

    def fresh():
        integ = cls((2,), dtype=np.dtype("float64"), rtol=1e-6, atol=1e-6)
        if integ.is_adaptive:
            st["validating"] = True
            try:
                integ.adaptation_fn = controller
            finally:
                st["validating"] = False
        integ.solver_dict_keep_keys = set(integ.solver_dict_keep_keys) | {"num_step_retries"}
        integ.solver_dict["num_step_retries"] = 3
        seen = []
        inner = integ.step

        def step(rhs_, t, y, constants, timestep):
            st["attempt"] += 1
            seen.append(float(timestep))
            return inner(rhs_, t, y, constants, timestep)
        integ.step = step
        return integ, seen
    integ, seen = fresh()
    t, y = np.float64(0.25), np.array([1.0, 0.5])
    mism = []
    for ci, c in enumerate(split_calls(log)):
        del seen[:]
        st["attempt"] = 0
        st["extra"] = 0
        end = c["end"]
        att = c["attempts"]
        # the verdict after attempt n: redo -> the next attempt's step (one tick shorter); accept -> the step handed back as "next dt"
        st["verdicts"] = [{"redo": a["redo"], "next": (a["h"] - 1) if a["redo"] else a["h"]} for a in att] if integ.is_adaptive else []
        st["arm"] = (end["n"] + 1) if (end["k"] == "raised" and end["why"] == "fault") else None
        raised = None
        out = None
        try:
            with traced.wall_clock(60.0):
                out = integ(rhs, t, y, {}, np.float64(sign * c["h"] * S))
        except traced.BudgetExceeded:
            mism.append({"call": ci + 1, "what": "Outcome", "model": end["k"], "code": "did not return within 60 s"})
            return {"mismatches": mism, "calls": ci + 1}
        except Injected as x:
            raised = "fault"
        except de.exception_types.FailedToMeetTolerances:
            raised = "tolerances"
        exp_h = [sign * a["h"] * S for a in att]
        if end["k"] == "raised" and end["why"] == "fault":
            exp_h = exp_h + [sign * ((att[-1]["h"] - 1) if att else c["h"]) * S]      # the attempt during which the fault is raised
        if [Fraction(a) for a in seen] != [Fraction(a) for a in exp_h]:
            mism.append({"call": ci + 1, "what": "AttemptedSteps", "model": exp_h, "code": list(seen)})
        want = None if end["k"] == "returned" else end["why"]
        if raised != want:
            mism.append({"call": ci + 1, "what": "Outcome", "model": want or "returned", "code": raised or "returned"})
        if raised is None and end["k"] == "returned":
            new_dt, (dT, dY) = out
            if Fraction(float(dT)) != Fraction(sign * end["h"] * S):
                mism.append({"call": ci + 1, "what": "ReturnedStep", "model": sign * end["h"] * S, "code": float(dT)})
            if integ.is_adaptive and Fraction(float(new_dt)) != Fraction(sign * att[-1]["h"] * S):
                mism.append({"call": ci + 1, "what": "ProposedStep", "model": sign * att[-1]["h"] * S, "code": float(new_dt)})
            t2, y2 = t + dT, y + dY
            if integ.final_rhs is None or not np.array_equal(np.asarray(integ.final_rhs), np.array([y2[1], -y2[0]])):
                mism.append({"call": ci + 1, "what": "CachedSlopeBelongsToNewState", "code": repr(integ.final_rhs)})
            t, y = t2, y2
        if raised is not None or st["extra"]:
            if st["extra"]:
                mism.append({"call": ci + 1, "what": "ControllerCalls", "code_extra": st["extra"]})
            integ, seen = fresh()        # the system rebuilds its integrator after a failed call
        if st["verdicts"] and raised != "fault":
            mism.append({"call": ci + 1, "what": "ControllerCalls", "model_left": len(st["verdicts"])})
    return {"mismatches": mism, "calls": len(split_calls(log))}


def _job(item):
    log, method, sign = item
    try:
        return replay(log, method, sign)
    except Exception:     # noqa
        import traceback
        return {"mismatches": [{"call": -1, "what": "DriverError", "code": traceback.format_exc()[-700:]}], "calls": 0}


ADAPT = ["RK45CK", "DOPRI45", "RK87", "AHE", "RK108"]
FIXED = ["RK4", "Euler", "Midpoint", "RK5", "Heun's"]


def short(lg):
    out = []
    for e in lg:
        if e["k"] == "call":
            out.append("call(h=%s)" % e["h"])
        elif e["k"] == "attempt":
            out.append("%s:%s" % (e["h"], "redo" if e["redo"] else "ok"))
        elif e["k"] == "raised":
            out.append("RAISED(%s)" % e["why"])
        elif e["k"] == "returned":
            out.append("->%s" % e["h"])
    return " ".join(out)


def phase(run, prefix, kinds, replay=None, num=None):
    if replay is not None:
        items = [(replay["log"], replay["method"], replay["sign"])]
        res = [_job(items[0])]
        n_states = 0
    else:
        num = num or (300 if run.tier == "quick" else 3000)
        items = []
        n_states = 0
        for cfg, meths in (("IntegratorSim_adaptive", ADAPT), ("IntegratorSim_fixed", FIXED)):
            b, ns, r = behaviours(cfg, num, run.seed)
            n_states += ns
            run.mc_runs.append({"module": "IntegratorSim", "cfg": cfg, "simulate": "num=%d" % num, "generated": ns, "behaviours": len(b), "wall_s": round(r.wall, 2)})
            b = [lg for lg in b if mappable(lg)]
            items += [(lg, meths[k % len(meths)], 1 if k % 2 else -1) for k, lg in enumerate(b)]
        res = core.pool_map(_job, items, chunksize=16)
    for (lg, m, sg), r in zip(items, res):
        run.evaluations += 1
        run.traces += 1
        if any(e["k"] == "retry" for e in lg):
            run.nontrivial.add(("integreplay", short(lg), m, sg))
        seen = set()
        for mm in r["mismatches"]:
            if mm["what"] == "DriverError":
                raise core.MachineryError("integrator replay driver failed: %s" % mm["code"])
            if mm["what"] in kinds and mm["what"] not in seen:
                seen.add(mm["what"])
                run.violation("%s.IntegratorReplay.%s" % (prefix, mm["what"]), "%s %s %s" % (m, "fwd" if sg > 0 else "bwd", short(lg)), mm,
                              replay={"integreplay": {"log": lg, "method": m, "sign": sg}})
    run.notes["integrator_replay"] = {"behaviours": len(items), "calls": sum(r["calls"] for r in res), "simulated_states": n_states,
                                      "with_retry": sum(1 for lg, _, _ in items if any(e["k"] == "retry" for e in lg)),
                                      "with_give_up": sum(1 for lg, _, _ in items if any(e["k"] == "raised" and e["why"] == "tolerances" for e in lg)),
                                      "with_fault": sum(1 for lg, _, _ in items if any(e["k"] == "raised" and e["why"] == "fault" for e in lg))}
