"""Scenario runner: executes a JSON-able scenario on the real OdeSystem under the zero-hook
sensor and normalises the log into a trace of exact, order-preserving integers for the TLA+
monitor (spec/OdeTrace.tla).

A scenario:
  {"id": str, "method": name | {"rich": base, "levels": n}, "dtype": "float64", "problem": "osc",
   "y0": [...], "t0": a, "tf": b, "dt": h, "dense": bool, "rtol": r|None, "atol": a|None,
   "ops": [ {"op": "integrate", "t": x|None, "events": [evspec...], "cbs": [cbspec...], "fault": k|None,
             "exc": "ValueError"|"KeyboardInterrupt"},
            {"op": "reset"}, {"op": "set", "what": "dt"|"rtol"|"atol"|"tf"|"method"|"kick", "v": ...} ]}
evspec: {"kind": "time"|"state"|"dstate", "c": root / level, "s": scale, "dir": -1|0|1, "term": bool, "comp": i}
cbspec: {"kind": "noop"} | {"kind": "setdt", "vals": [..]} (assigns vals[i % n] at the i-th invocation)
"""
from fractions import Fraction
import math
import numpy as np

import desolver as de
from vf import traced, num

FAMILY = {}


def method_class(m):
    if isinstance(m, dict):
        base = de.integrators.available_methods(False)[m["rich"]]
        return de.integrators.generate_richardson_integrator(base, richardson_iter=int(m["levels"]))
    return de.integrators.available_methods(False)[m]


def family_of(m):
    """kind of call protocol: 'fixed' (explicit, no estimator), 'split', 'adaptive', 'fixedimp', 'adaptimp', 'rich'"""
    if isinstance(m, dict):
        return "rich"
    cls = de.integrators.available_methods(False)[m]
    if issubclass(cls, de.integrators.ExplicitSymplecticIntegrator):
        return "split"
    tf = np.asarray(cls.tableau_final)
    ti = np.asarray(cls.tableau_intermediate)
    explicit = all((ti[c, c + 1:] == 0.0).all() for c in range(ti.shape[0]))
    adaptive = tf.shape[0] == 2
    if explicit:
        return "adaptive" if adaptive else "fixed"
    return "adaptimp" if adaptive else "fixedimp"


# ---------------------------------------------------------------------------------------------
# problems (autonomous unless stated)

def problem(name, dtype):
    if name == "osc":
        def f(t, y):
            return np.stack([y[1], -y[0]])
        return f
    if name == "decay":
        def f(t, y):
            return -y
        return f
    if name == "rat":      # y' = -y^2  (solution y0/(1+y0 t))
        def f(t, y):
            return -y * y
        return f
    if name == "tdep":     # y' = -2 t y^2
        def f(t, y):
            return -2 * t * y * y
        return f
    if name == "pend":     # q' = p, p' = -sin q
        def f(t, y):
            return np.stack([y[1], -np.sin(y[0])])
        return f
    if name == "stiffroot":     # y' = -50 sign(y) sqrt|y| + 1 : non-Lipschitz at 0, implicit stage equations can fail to converge
        def f(t, y):
            return -50.0 * np.sign(y) * np.sqrt(np.abs(y)) + 1.0
        return f
    if name == "tdepsys":     # non-autonomous, state dependent Jacobian: y0' = -(1 + t^2) y0 y1, y1' = sin(t) - y1^3
        def f(t, y):
            return np.stack([-(1.0 + t * t) * y[0] * y[1], np.sin(t) - y[1] ** 3])
        return f
    if name == "relay":       # switching right-hand side: the stage equations of implicit methods have no solution near the switch
        def f(t, y):
            return -20.0 * np.sign(y) + 0.0 * y
        return f
    if name == "steeplate":    # gentle at first, steep near |t| = 1: the controller grows dt, then has to reject the (clamped) last step
        def f(t, y):
            return -y * (1.0 + 4000.0 * max(0.0, abs(t) - 0.7) ** 2)
        return f
    if name == "tdepsmall":    # y' = -2 t y^2 / A, y(0) = A = 2^-20  =>  y = A / (1 + t^2): a small-amplitude solution (rtol and atol matter differently)
        def f(t, y):
            return -2 * t * y * y * 1048576.0
        return f
    if name == "pair":         # coupled, components of different magnitude: y = (3/(1+t), 1/(1+t), A/(1+t^2)), A = 2^-20 (spec/Accuracy.tla)
        def f(t, y):
            return np.stack([-y[0] * y[1], -y[1] * y[1], -2 * t * y[2] * y[2] * 1048576.0])
        return f
    if name == "nanwall":      # smooth for |t| < 1/2, undefined beyond: no step can be taken across the wall
        def f(t, y):
            return -y if abs(t) < 0.5 else np.nan * y
        return f
    if name == "const":
        def f(t, y):
            return np.ones_like(y)
        return f
    if name == "grow":         # q' = p, p' = q: grows like exp(t); run long enough with a fixed step the increments overflow (no error is raised)
        def f(t, y):
            return np.stack([y[1], y[0]])
        return f
    if name == "decay":        # y' = -y: the solution decays by orders of magnitude (spec/Accuracy.tla supplies an enclosure of exp(-T))
        def f(t, y):
            return -y
        return f
    if name == "osck":         # the oscillator with its frequency as a CONSTANT of the system (OdeSystem.constants): q' = p, p' = -k q
        def f(t, y, k=1.0):
            return np.stack([y[1], -k * y[0]])
        return f
    raise KeyError(name)


def jacobian(name):
    if name == "osc":
        return lambda t, y: np.array([[0.0, 1.0], [-1.0, 0.0]], dtype=y.dtype)
    if name == "decay":
        return lambda t, y: -np.eye(len(y), dtype=y.dtype)
    if name == "pend":
        return lambda t, y: np.array([[0.0, 1.0], [-np.cos(y[0]), 0.0]], dtype=y.dtype)
    if name == "rat":
        return lambda t, y: np.diag(-2.0 * y)
    raise KeyError(name)


def make_event(spec, dtype):
    kind = spec["kind"]
    c = spec["c"]
    s = spec.get("s", 1.0)
    comp = spec.get("comp", 0)
    if kind == "time":
        def ev(t, y):
            return s * (t - c)
    elif kind == "timeoff":      # root of s*((t - c) + off) is not a floating point number when |off| < ulp(c)/2
        off = spec["off"]

        def ev(t, y):
            return s * ((t - c) + off)
    elif kind == "state":
        def ev(t, y):
            return s * (y[comp] - c)
    elif kind == "dstate":
        def ev(t, y, dy):
            return s * (dy[comp] - c)
        ev.requires_dstate = True
    else:
        raise KeyError(kind)
    if spec.get("term"):
        ev.is_terminal = True
    if spec.get("dir", 0):
        ev.direction = spec["dir"]
    return ev


def make_callback(spec, dtype):
    kind = spec["kind"]
    if kind == "noop":
        return None
    if kind == "setdt":
        vals = spec["vals"]
        n = [0]

        def cb(system):
            v = vals[n[0] % len(vals)]
            n[0] += 1
            if v is not None:
                system.dt = v
        return cb
    if kind == "hook":      # a named observer registered by a property module: called with the system at the `at`-th invocation
        fn = HOOKS[spec["name"]]
        n = [0]

        def cb(system):
            n[0] += 1
            if n[0] == spec.get("at", 1):
                fn(system, spec)
        return cb
    raise KeyError(kind)


HOOKS = {}


EXC = {"ValueError": ValueError, "KeyboardInterrupt": KeyboardInterrupt, "ZeroDivisionError": ZeroDivisionError,
       "RuntimeError": RuntimeError}


class Injected(Exception):
    pass


class _mem_fault(object):
    """Allocation fault: while active, a request for more than `limit` rows of solution storage raises MemoryError (the library is
    expected to fall back to small blocks and carry on).  Patches the one allocator desolver.differential_system uses."""
    def __init__(self, limit):
        self.limit = limit
        self.hits = 0

    def __enter__(self):
        if self.limit is None:
            return self
        import desolver.differential_system as ds
        self.mod = ds.D.ar_numpy
        self.orig = self.mod.zeros

        def zeros(shape, *a, **k):
            if isinstance(shape, tuple) and shape and isinstance(shape[0], (int, np.integer)) and shape[0] > self.limit:
                self.hits += 1
                raise MemoryError("injected allocation failure (%d rows)" % shape[0])
            return self.orig(shape, *a, **k)
        self.mod.zeros = zeros
        return self

    def __exit__(self, *exc):
        if self.limit is not None:
            self.mod.zeros = self.orig
        return False


def run(sc, detail_rhs=False, keep_system=False):
    """Execute the scenario; returns (log, api) where api is a list of API level results."""
    with _mem_fault(sc.get("memfault")) as mf:
        out = _run(sc, detail_rhs, keep_system)
        out[0].mem_faults = mf.hits
        return out


def _run(sc, detail_rhs=False, keep_system=False):
    dt = np.dtype(sc.get("dtype", "float64"))
    f = problem(sc.get("problem", "osc"), dt)
    y0 = np.array(sc["y0"], dtype=dt)
    y0_copy = y0.copy()
    with traced.session(detail_rhs=detail_rhs) as lg:
        rhs = traced.WrappedRhs(f, lg, jac=(jacobian(sc.get("problem", "osc")) if sc.get("userjac") else None))
        lg.fault_plan = traced.FaultPlan()
        lg.rhs_budget = int(sc.get("budget", 120000))
        lg.event_budget = int(sc.get("event_budget", lg.event_budget))
        kw = {}
        if sc.get("rtol") is not None:
            kw["rtol"] = sc["rtol"]
        if sc.get("atol") is not None:
            kw["atol"] = sc["atol"]
        if sc.get("constants") is not None:
            kw["constants"] = dict(sc["constants"])
        lg.const_marks = []        # (number of dense pieces stored when new constants were assigned, the constants)
        system = traced.TracedOdeSystem(lg, rhs, y0, t=(sc["t0"], sc["tf"]), dt=sc["dt"],
                                        dense_output=bool(sc.get("dense", False)), **kw)
        lg.emit("Api", op="new", method=str(sc["method"]))
        system.method = method_class(sc["method"])
        lg.emit("Api", op="method")
        cur_method = [sc["method"]]
        lg.cur_method = cur_method
        for k, op in enumerate(sc["ops"]):
            name = op["op"]
            if name == "integrate":
                evs = None
                if op.get("events"):
                    evs = [traced.wrap_event(make_event(e, dt), lg, i) for i, e in enumerate(op["events"])]
                cbs = None
                if op.get("cbs"):
                    cbs = []
                    for i, c in enumerate(op["cbs"]):
                        if c["kind"] == "mutatelist":
                            # a callback that edits the LIST OBJECT the caller passed to integrate() while the run is in progress (it removes
                            # the first entry at its `at`-th invocation): the run was started with the callbacks given, in that order
                            def raw(system, _l=cbs, _n=[0], _at=c.get("at", 3)):
                                _n[0] += 1
                                if _n[0] == _at and len(_l) > 1:
                                    del _l[0]
                            cbs.append(traced.wrap_callback(raw, lg, i))
                        else:
                            cbs.append(traced.wrap_callback(make_callback(c, dt), lg, i))
                fp = lg.fault_plan
                fp.n = 0
                fp.k = op.get("fault")
                fp.only = op.get("faultSite")
                fp.exc = None
                if fp.k is not None:
                    exc_t = op.get("exc", "ValueError")
                    fp.exc = KeyboardInterrupt("injected") if exc_t == "KeyboardInterrupt" else Injected("injected " + exc_t)
                lg.emit("Api", op="integrate", k=k)
                t_start = np.array(system.t[-1], copy=True)
                t_goal = op.get("t") if op.get("t") is not None else system.tf
                err = None
                try:
                    with traced.wall_clock(float(sc.get("wall_limit", 240.0))):
                        system.integrate(t=op.get("t"), events=evs, callback=cbs)
                except KeyboardInterrupt as e:
                    err = e
                except traced.BudgetExceeded as e:
                    err = e
                    object.__setattr__(system, "_vf_depth", 0)
                except Exception as e:
                    err = e
                fp.k = None
                lg.emit("ApiRet", op="integrate", k=k, err=_err_info(err), ncalls=fp.n, site=fp.fired_site,
                        full=_full_state(system, y0_copy, y0), truth=_event_truth(op, t_start, t_goal, dt))
                fp.fired_site = None
                if isinstance(err, traced.BudgetExceeded):
                    break
            elif name == "query":
                lg.emit("Api", op="query", k=k)
                _do_query(system)
                lg.emit("ApiRet", op="query", k=k, err=None, full=_full_state(system, y0_copy, y0))
            elif name == "reset":
                lg.emit("Api", op="reset", k=k)
                system.reset()
                lg.const_marks = [(0, c_) for (_, c_) in lg.const_marks[-1:]]      # the pieces are gone; the constants assigned last stay
                lg.emit("ApiRet", op="reset", k=k, err=None, full=_full_state(system, y0_copy, y0))
            elif name == "set":
                lg.emit("Api", op="set", k=k, what=op["what"])
                w, v = op["what"], op["v"]
                if w == "dt":
                    system.dt = v
                elif w == "rtol":
                    system.rtol = v
                elif w == "atol":
                    system.atol = v
                elif w == "tf":
                    system.tf = v
                elif w == "method":
                    system.method = method_class(v)
                elif w == "kick":
                    system.set_kick_vars(np.array(v, dtype=bool))
                elif w == "constants":
                    sol_ = system.sol
                    lg.const_marks.append((len(sol_.y_interpolants) if sol_ is not None else 0, dict(v)))
                    system.constants = dict(v)
                elif w == "constants-inplace":       # the dictionary the system handed out is edited in place: no setter runs
                    sol_ = system.sol
                    lg.const_marks.append((len(sol_.y_interpolants) if sol_ is not None else 0, dict(system.constants, **v)))
                    system.constants.update(v)
                if w == "method":
                    cur_method[0] = v
                lg.emit("ApiRet", op="set", k=k, err=None, full=_full_state(system, y0_copy, y0))
            else:
                raise KeyError(name)
    return (lg, system) if keep_system else (lg, None)


def _event_truth(op, t_start, t_goal, dt):
    """Ground truth that the scenario definition gives for time events g = s*(t - c): the roots that lie in the
    half-open span (t_start, t_goal] of this call, with their event index and terminal flag."""
    out = []
    a, b = num.frac(t_start), (num.frac(t_goal) if np.isfinite(float(t_goal)) else None)
    for i, e in enumerate(op.get("events") or []):
        if e["kind"] != "time":
            continue
        c = num.frac(np.asarray(e["c"], dtype=dt))
        if b is None:
            inside = (c > a) if float(t_goal) > 0 else (c < a)
        else:
            inside = (a < c <= b) or (b <= c < a)
        if inside:
            fwd = (float(t_goal) > float(t_start))
            d = int(e.get("dir", 0))
            # crossing direction is read along the direction of integration (what the library documents for forward runs)
            out.append({"ev": i, "c": np.asarray(e["c"], dtype=dt), "term": bool(e.get("term")), "dir": d,
                        "s": float(e.get("s", 1.0)), "dirOk": bool(d == 0 or ((d > 0) == ((float(e.get("s", 1.0)) > 0) == fwd)))})
    return out


def _do_query(system):
    """A user looks the solution up between two calls (scalar and array form); results are discarded."""
    if system.sol is not None and len(system.t) > 1:
        tt = np.array(system.t, copy=True)
        mids = tt[:-1] + (tt[1:] - tt[:-1]) * 0.5
        system.sol(mids)
        system.sol(mids[0])
        system[mids[-1]]


def _err_info(e):
    if e is None:
        return None
    chain = []
    x = e
    while x is not None and len(chain) < 8:
        chain.append(type(x).__name__)
        x = x.__cause__
    return {"type": type(e).__name__, "chain": chain}


def _events_dict_ok(system):
    """The per-function view `events_dict` lists exactly the events of the `events` list, grouped by event function, in list order."""
    try:
        evs = list(system.events)
        ed = system.events_dict
        fns = []
        for e in evs:
            if not any(e.event is f for f in fns):
                fns.append(e.event)
        if len(ed) != len(fns):
            return False
        for f in fns:
            mine = [e for e in evs if e.event is f]
            v = ed[f]
            if v.event is not f or len(v.t) != len(mine):
                return False
            for k, e in enumerate(mine):
                if not (np.array_equal(np.asarray(v.t[k]), np.asarray(e.t)) and np.array_equal(np.asarray(v.y[k]), np.asarray(e.y))):
                    return False
        return True
    except Exception:      # noqa
        return False


def _full_state(system, y0_copy, y0):
    t = np.array(system.t, copy=True)
    lgm = getattr(system._vf_log, "cur_method", None)
    y = np.array(system.y, copy=True)
    d = system.__dict__
    sol = d.get("_OdeSystem__sol")
    return {
        "t": t, "y": y,
        "lenT": len(d["_OdeSystem__t"]), "lenY": len(d["_OdeSystem__y"]),
        "dt": system.dt, "status": traced._status_code(d["_OdeSystem__int_status"]),
        "success": bool(system.success), "msg": system.integration_status,
        "nsol": len(sol) if sol is not None else 0,
        "solT": [x for x in (sol.t_eval or [])] if sol is not None else [],
        "solPub": system.sol is not None,
        "events": [(e.t, e.event) for e in system.events], "evDictOk": _events_dict_ok(system),
        "nfev": system.nfev, "njev": system.njev,
        "y0Untouched": bool(np.array_equal(y0, y0_copy)),
        "dtype": str(y.dtype), "tdtype": str(t.dtype),
        "finite": bool(np.all(np.isfinite(t)) and np.all(np.isfinite(y))),
        "t0": system.t0, "tf": system.tf, "family": family_of(lgm[0]) if lgm else None,
    }


# ---------------------------------------------------------------------------------------------
# normalisation for TLC

class Interner(object):
    """Exact interning: time-like values -> order preserving ranks (0 -> 0); arrays -> ids."""

    def __init__(self):
        self.vals = set()
        self.arr = {}

    def see(self, x):
        if x is None:
            return
        try:
            if not np.isfinite(float(x)):
                return
        except (TypeError, ValueError):
            pass
        f = num.frac(x)
        self.vals.add(f)
        self.vals.add(abs(f))

    def freeze(self):
        self.rk = num.ranks(self.vals)

    def r(self, x):
        return self.rk[num.frac(x)]

    def m(self, x):
        return self.rk[abs(num.frac(x))]

    def a(self, arr):
        if arr is None:
            return 0
        b = num.canon_bytes(arr)
        if b not in self.arr:
            self.arr[b] = len(self.arr) + 1
        return self.arr[b]


STATUS = {0: "notrun", 1: "done", 2: "event", 3: "failed", 4: "interrupted", 5: "other", 6: "other"}


def normalise(sc, lg):
    """Turn the raw log into the trace TLC reads.  Two passes: collect time-like values, rank."""
    dt = np.dtype(sc.get("dtype", "float64"))
    it = Interner()
    evs = lg.events
    # derived float facts use the working dtype exactly as the code does
    call_t = {}
    for e in evs:
        if e["e"] == "SolRemove" and e.get("t") is not None:
            e["t"] = np.asarray(e["t"]).astype(dt)
        if e["e"] == "SolAdd":
            # piece times in the working precision: an implicit method may hand back float64 times for a float32 system, and the
            # buffer rounds the recorded time on assignment (same rule as for `_yEnd` below)
            for k in ("t", "t0", "t1"):
                if e.get(k) is not None:
                    e[k] = np.asarray(e[k]).astype(dt)
        for k in ("t", "h", "dT", "newDt", "target", "prev", "next", "dt", "t0", "t1"):
            if k in e and e[k] is not None and not isinstance(e[k], (list, str)):
                it.see(e[k])
        if "roots" in e:
            for r in e["roots"]:
                it.see(r)
        s = e.get("s")
        if s:
            it.see(s["tc"])
            it.see(s["dt"])
        for x in e.get("truth", []) or []:
            it.see(x["c"])
        fl = e.get("full")
        if fl:
            for x in fl["t"]:
                it.see(x)
            fl["solT"] = [np.asarray(x).astype(dt) for x in fl["solT"]]
            for x in fl["solT"]:
                it.see(x)
            for (x, _) in fl["events"]:
                it.see(x)
            it.see(fl["dt"])
            it.see(fl["t0"])
            it.see(fl["tf"])
    # second order derived values
    derived = []
    target_stack = []
    last_call = None
    for i, e in enumerate(evs):
        n = e["e"]
        if n == "IntegrateCall":
            target_stack.append(e["target"])
        elif n in ("IntegrateRet", "IntegrateRaise"):
            if target_stack:
                target_stack.pop()
        elif n == "IntegCall":
            last_call = e
            tgt = target_stack[-1] if target_stack else None
            if tgt is not None and np.isfinite(float(tgt)):
                rem = np.asarray(tgt, dtype=dt) - np.asarray(e["t"], dtype=dt)
                e["_rem"] = rem
                it.see(rem)
            else:
                e["_rem"] = None
            e["_target"] = tgt
        elif n == "IntegRet" and last_call is not None:
            tend = np.asarray(last_call["t"], dtype=dt) + np.asarray(e["dT"], dtype=dt)
            e["_tEnd"] = tend
            # the system stores y + dY into its buffer: the sum is rounded to the buffer's dtype on assignment
            # (an implicit method may hand back a wider dY than the state it was given)
            e["_yEnd"] = (np.asarray(last_call["y"]) + np.asarray(e["dY"])).astype(np.asarray(last_call["y"]).dtype)
            it.see(tend)
    it.freeze()
    eps = num.eps_of(dt)
    out = []
    target_stack = []
    tdirs = []
    ev_hist = {}
    for e in evs:
        n = e["e"]
        o = {"e": n}
        s = e.get("s")
        if s:
            o["s"] = {"counter": int(s["counter"]), "buf": int(s["buf"]), "tc": it.r(s["tc"]), "yc": it.a(s["yc"]), "dt": it.r(s["dt"]),
                      "dtm": it.m(s["dt"]), "status": STATUS[s["status"]], "nsol": int(s["nsol"]), "nev": int(s["nev"]),
                      "nfev": int(s["nfev"]), "njev": int(s["njev"]), "rhsDone": int(s["rhsDone"]),
                      "jacDone": int(s["jacDone"]), "jacReq": int(s["jacReq"]), "depth": int(s["depth"])}
        if n == "IntegrateCall":
            tgt = e["target"]
            fin = bool(np.isfinite(float(tgt)))
            target_stack.append(tgt)
            tc = s["tc"]
            tdirs.append((num.sign(num.frac(tgt) - num.frac(tc)) if fin else (1 if float(tgt) > 0 else -1)))
            o.update(target=(it.r(tgt) if fin else 0), finite=fin, inf=(0 if fin else (1 if float(tgt) > 0 else -1)),
                     depth=e["depth"], nevents=e["nevents"], ncb=e["ncb"], term=list(e.get("term", [])),
                     dir=(num.sign(num.frac(tgt) - num.frac(tc)) if fin else (1 if float(tgt) > 0 else -1)),
                     # |target - t| < 4 eps : the call is a no-op
                     atTarget=bool(fin and abs(num.frac(tgt) - num.frac(tc)) < 4 * eps),
                     # |dt| > |target - t| : the step is halved to |target - t| / 2
                     spanm=(it.m(np.asarray(tgt, dtype=dt) - np.asarray(tc, dtype=dt)) if fin and num.frac(np.asarray(tgt, dtype=dt) - np.asarray(tc, dtype=dt)) in it.rk else -1))
        elif n in ("IntegrateRet", "IntegrateRaise"):
            tgt = target_stack.pop() if target_stack else None
            if tdirs:
                tdirs.pop()
            o["depth"] = e["depth"]
            fin = tgt is not None and bool(np.isfinite(float(tgt)))
            o["endUlps"] = num.gap_units(s["tc"], tgt, [tgt], dt) if fin else -1
            if n == "IntegrateRaise":
                o["exc"] = e["exc"]
                o["chain"] = e["chain"]
        elif n == "IntegCall":
            tgt = e["_target"]
            fin = e["_rem"] is not None
            o.update(t=it.r(e["t"]), h=it.r(e["h"]), hm=it.m(e["h"]), y=it.a(e["y"]),
                     rem=(it.r(e["_rem"]) if fin else 0), remm=(it.m(e["_rem"]) if fin else 0), finite=fin)
            if fin:
                # would a full step of the current dt overshoot the target?  exact, with 4-eps border
                dtv = num.frac(s["dt"])
                remx = num.frac(tgt) - num.frac(e["t"])
                if abs(dtv) > abs(remx) * (1 + 4 * eps):
                    o["clamp"] = "needed"
                elif abs(dtv) < abs(remx) * (1 - 4 * eps):
                    o["clamp"] = "notNeeded"
                else:
                    o["clamp"] = "border"
            else:
                o["clamp"] = "notNeeded"
        elif n in ("Attempt",):
            o.update(h=it.r(e["h"]), hm=it.m(e["h"]))
        elif n == "AttemptRet":
            o.update(h=it.r(e["h"]), dT=it.r(e["dT"]), dTm=it.m(e["dT"]),
                     newton=("na" if e["newton"] is None else ("ok" if bool(e["newton"]) else "fail")))
        elif n == "AttemptRaise":
            o["exc"] = e["exc"]
        elif n == "Controller":
            o.update(newDt=it.r(e["newDt"]) if np.isfinite(float(e["newDt"])) else 0, newDtm=it.m(e["newDt"]) if np.isfinite(float(e["newDt"])) else 0, redo=e["redo"])
        elif n == "IntegRet":
            o.update(newDt=it.r(e["newDt"]), newDtm=it.m(e["newDt"]), dT=it.r(e["dT"]), dTm=it.m(e["dT"]),
                     h=it.r(e["h"]), tEnd=it.r(e["_tEnd"]), yEnd=it.a(e["_yEnd"]))
        elif n == "IntegRaise":
            o["exc"] = e["exc"]
        elif n == "Counter":
            o.update(old=int(e["old"]), new=int(e["new"]))
            bu = 0
            if target_stack and np.isfinite(float(target_stack[-1])) and int(e["new"]) == int(e["old"]) + 1:
                tgt = target_stack[-1]
                d = tdirs[-1] if tdirs else 0
                if d * (num.frac(s["tc"]) - num.frac(tgt)) > 0:
                    bu = num.gap_units(s["tc"], tgt, [tgt], dt)
            o["beyondUlps"] = bu
        elif n == "DtAssign":
            o.update(dt=it.r(e["dt"]), dtm=it.m(e["dt"]))
        elif n == "Status":
            o["code"] = STATUS[e["code"]]
        elif n == "SolAdd":
            o.update(t=it.r(e["t"]), t0=(it.r(e["t0"]) if e["t0"] is not None else 0), t1=(it.r(e["t1"]) if e["t1"] is not None else 0),
                     hasEnds=e["t0"] is not None, before=int(e["before"]))
        elif n == "SolRemove":
            o.update(idx=int(e["idx"]), t=it.r(e["t"]), before=int(e["before"]))
        elif n == "HandleEvents":
            o.update(prev=it.r(e["prev"]), next=it.r(e["next"]))
        elif n == "HandleEventsRet":
            o.update(prev=it.r(e["prev"]), next=it.r(e["next"]), active=e["active"], roots=[it.r(r) for r in e["roots"]],
                     terminate=e["terminate"])
        elif n == "EventRec":
            evi = int(getattr(e["ev"], "_vf_idx", -1))
            prevs = ev_hist.setdefault(evi, [])
            near = min([num.ulp_distance(e["t"], p, dt) for p in prevs if num.frac(p) != num.frac(e["t"])] or [-1])
            prevs.append(e["t"])
            o.update(t=it.r(e["t"]), ev=evi, n=int(e["n"]), nearUlps=int(near))
        elif n in ("Callback", "CallbackRet"):
            o["i"] = int(e["i"])
        elif n == "Interp":
            o["n"] = int(e["n"])
        elif n == "Api":
            o.update(op=e["op"], k=int(e.get("k", -1)))
        elif n == "ApiRet":
            fl = e["full"]
            o.update(op=e["op"], k=int(e.get("k", -1)), err=("none" if e.get("err") is None else e["err"]["type"]),
                     family=(fl.get("family") or family_of(sc["method"])),
                     chain=([] if e.get("err") is None else e["err"]["chain"]),
                     grid=[it.r(x) for x in fl["t"]], ygrid=[it.a(x) for x in fl["y"]],
                     paired=(fl["lenT"] == fl["lenY"] and len(fl["t"]) == len(fl["y"])), lenT=int(fl["lenT"]),
                     dt=it.r(fl["dt"]), dtm=it.m(fl["dt"]), status=STATUS[fl["status"]], success=fl["success"],
                     nsol=int(fl["nsol"]), solT=[it.r(x) for x in fl["solT"]], solPub=fl["solPub"],
                     evDictOk=bool(fl.get("evDictOk", True)),
                     evT=[it.r(x) for (x, _) in fl["events"]], evI=[int(getattr(f, "_vf_idx", -1)) for (_, f) in fl["events"]],
                     nfev=int(fl["nfev"]), njev=int(fl["njev"]), y0Untouched=fl["y0Untouched"],
                     dtypeOk=(fl["dtype"] == str(dt) and fl["tdtype"] == str(dt)), finite=fl["finite"],
                     t0=it.r(fl["t0"]), tf=(it.r(fl["tf"]) if np.isfinite(float(fl["tf"])) else 0),
                     site=(e.get("site") or "none"), ncalls=int(e.get("ncalls", 0)),
                     truthT=[it.r(x["c"]) for x in e.get("truth", [])], truthEv=[int(x["ev"]) for x in e.get("truth", [])],
                     truthTerm=[bool(x["term"]) for x in e.get("truth", [])],
                     truthGap=[num.gap_units(fl["t"][-1], x["c"], [x["c"]], dt) for x in e.get("truth", [])],
                     truthDirOk=[bool(x["dirOk"]) for x in e.get("truth", [])],
                     evGap=[num.gap_units(fl["t"][-1], x, [x], dt) for (x, _) in fl["events"]],
                     lastEvUlps=(num.gap_units(fl["t"][-1], fl["events"][-1][0], [fl["events"][-1][0]], dt) if len(fl["events"]) else -1))
        elif n == "ResetRet":
            ev_hist.clear()
        elif n in ("ResetCall", "New", "Rhs"):
            pass
        out.append(o)
    fam = family_of(sc["method"])
    return {"id": sc["id"], "family": fam, "dense": bool(sc.get("dense", False)), "memFaults": int(getattr(lg, "mem_faults", 0) or 0),
            "t0": it.r(np.asarray(sc["t0"], dtype=dt)), "events": out, "expectFail": list(sc.get("expectFail", [])),
            # mayFail: the scenario does not say whether its calls can complete (the repository's own tests, stiff problems at the edge)
            "mayFail": bool(sc.get("mayFail", False))}


# ---------------------------------------------------------------------------------------------
# plain (unobserved) execution, used for twin comparisons

def run_plain(sc):
    """Execute the scenario on a plain de.OdeSystem.  Returns dict(t, y, ok, err, nfev, events, dt, status)."""
    dt = np.dtype(sc.get("dtype", "float64"))
    f0 = problem(sc.get("problem", "osc"), dt)
    budget = int(sc.get("budget", 120000))
    if sc.get("reflect"):
        def f1(t, y):
            return -f0(-t, y)
    else:
        f1 = f0

    def f(t, y):
        calls[0] += 1
        opcalls[0] += 1
        if calls[0] > budget:
            raise traced.BudgetExceeded("more than %d right-hand-side evaluations" % budget)
        if fault_at[0] is not None and opcalls[0] == fault_at[0]:
            if fault_exc[0] == "KeyboardInterrupt":
                raise KeyboardInterrupt("injected")
            raise Injected("injected")
        return f1(t, y)
    calls = [0]
    opcalls = [0]
    fault_at = [None]
    fault_exc = [None]
    y0 = np.array(sc["y0"], dtype=dt)
    kw = {}
    if sc.get("rtol") is not None:
        kw["rtol"] = sc["rtol"]
    if sc.get("atol") is not None:
        kw["atol"] = sc["atol"]
    system = de.OdeSystem(f, y0, t=(sc["t0"], sc["tf"]), dt=sc["dt"], dense_output=bool(sc.get("dense", False)), **kw)
    system.method = method_class(sc["method"])
    err = None
    for op in sc["ops"]:
        name = op["op"]
        try:
            if name == "integrate":
                evs = [make_event(e, dt) for e in op["events"]] if op.get("events") else None
                cbs = [c for c in (make_callback(c, dt) for c in op.get("cbs", [])) if c is not None] or None
                opcalls[0] = 0
                fault_at[0] = op.get("fault")
                fault_exc[0] = op.get("exc")
                try:
                    with traced.wall_clock(float(sc.get("wall_limit", 240.0))):
                        system.integrate(t=op.get("t"), events=evs, callback=cbs)
                except de.exception_types.FailedIntegration:
                    if fault_at[0] is None:
                        raise
                except KeyboardInterrupt:
                    if fault_at[0] is None or fault_exc[0] != "KeyboardInterrupt":
                        raise
                finally:
                    fault_at[0] = None
            elif name == "reset":
                system.reset()
            elif name == "query":
                _do_query(system)
            elif name == "set":
                w, v = op["what"], op["v"]
                if w == "dt":
                    system.dt = v
                elif w == "rtol":
                    system.rtol = v
                elif w == "atol":
                    system.atol = v
                elif w == "tf":
                    system.tf = v
                elif w == "method":
                    system.method = method_class(v)
                elif w == "kick":
                    system.set_kick_vars(np.array(v, dtype=bool))
                elif w == "constants":
                    system.constants = dict(v)
                elif w == "constants-inplace":
                    system.constants.update(v)
        except traced.BudgetExceeded as e:
            err = "BudgetExceeded"
            break
        except Exception as e:  # noqa
            err = type(e).__name__
            break
    mids = []
    if err is None and system.sol is not None and len(system.t) > 1:
        try:
            for i in range(len(system.t) - 1):
                mids.append(np.array(system.sol(system.t[i] + (system.t[i + 1] - system.t[i]) * 0.5), copy=True))
        except Exception as e:   # noqa
            mids = [np.array([np.nan])]
    probes = []
    if err is None and system.sol is not None and len(system.t) > 1:
        try:
            a_, b_ = system.t[0], system.t[-1]
            probes = [np.array(system.sol(a_ + (b_ - a_) * np.asarray(k / 16.0, dtype=dt)), copy=True) for k in range(1, 16)]
        except Exception as e:   # noqa
            probes = [np.array([np.nan])]
    return {"t": np.array(system.t, copy=True), "y": np.array(system.y, copy=True), "ok": err is None, "err": err, "mids": mids, "probes": probes,
            "nfev": system.nfev, "events": [(e.t, np.array(e.y, copy=True)) for e in system.events], "dt": system.dt,
            "status": system.integration_status, "system": system}
