"""Entry point of the growth checks (not registered per property in MANIFEST.json): bin/extra <name> [--tier t].
Exit 0: the real code conforms to the growth specification (or deviates only as listed in extra_findings.json);
exit 1: an unlisted deviation; exit 2: machinery failure."""
import argparse
import importlib
import json
import os
import sys
import traceback
from vf import core


def main(argv=None):
    ap = argparse.ArgumentParser()
    ap.add_argument("name")
    ap.add_argument("--tier", default="quick")
    a = ap.parse_args(argv)
    seed = int(os.environ.get("VERIF_SEED", "0") or 0)
    try:
        mod = importlib.import_module("vf.extra." + a.name)
        rep = mod.check(a.tier, seed)
    except core.MachineryError as e:
        print("MACHINERY-FAILURE extra/%s: %s" % (a.name, e))
        return 2
    except Exception:
        traceback.print_exc()
        print("MACHINERY-FAILURE extra/%s: unexpected exception" % a.name)
        return 2
    listed = {}
    p = os.path.join(core.ROOT, "extra_findings.json")
    if os.path.exists(p):
        with open(p) as f:
            listed = json.load(f).get(a.name, {})
    rc = 0
    for c, d in rep.get("deviations", {}).items():
        if c in listed:
            print("KNOWN-DEVIATION extra/%s %s: %s (x%d)" % (a.name, c, listed[c], d["count"]))
        else:
            print("DEVIATION extra/%s %s x%d first=%s" % (a.name, c, d["count"], json.dumps(d["first"])))
            rc = 1
    for c, d in rep.get("code_deviations_modelled", {}).items():
        print("MODELLED-DEVIATION extra/%s %s: %s" % (a.name, c, d))
    out_root = os.environ.get("VF_OUT_ROOT") or core.ROOT      # self-test runs against a scratch worktree keep their reports out of /verif
    os.makedirs(os.path.join(out_root, "extra_reports"), exist_ok=True)
    with open(os.path.join(out_root, "extra_reports", a.name + ".json"), "w") as f:
        json.dump(rep, f, indent=1, default=str)
    print("extra/%s tier=%s: %s" % (a.name, a.tier, json.dumps({k: rep[k] for k in rep if k in ("model", "replayed")})))
    return rc
