"""C12 -- a failure leaves a consistent, resumable prefix of the trajectory.

Design level : OdeSystem.tla with FAULTS = TRUE: a Fault step is enabled at every position of the loop (step, event
               handling, callbacks, nested landing call), TLC visits every crash point of every short history incl. several
               successive faults: FailureLeavesPrefix, PiecesAreSteps, SegmentMonotone, ResetRestores afterwards.
Conformance  : fault enumeration on the real code: for each short scenario the number N of user-callable invocations
               (right-hand side, event functions, callbacks) of the run is counted, then the scenario is re-run N times
               raising at invocation k = 1..N (a sample only when N is large), followed by a resumed integrate() and, in some
               histories, a second fault or a reset.  Every trace is validated by OdeTrace.tla (C12.*); the resumed result is
               compared with the undisturbed run by TwinJudge.tla (bit for bit for explicit families, to tolerance otherwise).
"""
import random
from vf import modelreplay, gen, odecore, core, scen, twins

LEVEL = "fault_enumeration"
PREFIX = ("C12.",)


def base_scenarios(tier, seed):
    thorough = tier == "thorough"
    meths = ["RK4", "DOPRI45", "RK45CK", "ABAS5O6H", "BackwardEuler", "RadauIIA5", {"rich": "RK4", "levels": 2}]
    if thorough:
        meths += ["Euler", "RK5", "AHE", "BABS9O7H", "CrankNicolson", "GaussLegendre4", "LobattoIIIC4", {"rich": "Midpoint", "levels": 3}]
    out = []
    n = 0
    for m in meths:
        for (a, b) in ((0.0, 1.0), (1.0, -1.0), (-3.0, -2.0)):
            span = b - a
            P = lambda f: a + span * f      # noqa
            for variant in range(3):
                n += 1
                if not thorough and (n + seed) % 2 and variant != 1:
                    continue
                sc = gen.with_tol(gen.base(m, a, b, abs(span) / (4.0 if scen.family_of(m) not in ("adaptive", "adaptimp") else 1.0)))
                if sc.get("rtol"):
                    sc["rtol"] = sc["atol"] = 1e-5
                sc["dense"] = bool(n % 2)
                if variant == 0:
                    op = {"op": "integrate"}
                elif variant == 1:
                    op = {"op": "integrate", "events": [{"kind": "time", "c": P(0.4)}, {"kind": "time", "c": P(0.7), "term": True}],
                          "cbs": [{"kind": "noop"}]}
                else:
                    op = {"op": "integrate", "cbs": [{"kind": "setdt", "vals": [abs(span) / 4.0, None]}, {"kind": "noop"}],
                          "events": [{"kind": "state", "c": 0.5, "comp": 0}]}
                sc["ops"] = [op]
                out.append(sc)
    return out


def _count(sc):
    """(number of user-callable invocations of the undisturbed run, the invocation numbers at which a RETRY of a step begins)"""
    lg, _ = scen.run(sc)
    n, retries, attempts = 0, [], 0
    for e in lg.events:
        if e["e"] == "IntegCall":
            attempts = 0
        elif e["e"] == "Attempt":
            attempts += 1
            if attempts >= 2:
                retries.append(int(e.get("ncall", 0)))
        elif e["e"] == "ApiRet" and e.get("op") == "integrate":
            n = int(e["ncalls"])
            break
    return n, retries


def expand(bases, counts, tier, seed):
    rnd = random.Random(seed)
    cap = 60 if tier == "thorough" else 14
    scs, jobs = [], []
    for sc, (n, retries) in zip(bases, counts):
        ks = list(range(1, n + 1))
        if len(ks) > cap:
            # always keep the first and last few crash points, sample the rest
            keep = set(ks[:4] + ks[-3:])
            rest = [k for k in ks if k not in keep]
            rnd.shuffle(rest)
            ks = sorted(keep | set(rest[:cap - len(keep)]))
        # a crash INSIDE A RETRY of a step (the integrator then holds slopes of an attempt that was never recorded): the first two
        # invocations of the first two retries of the run, once as an error and once as a keyboard interrupt
        inretry = {}
        for r in retries[:2]:
            for j, kind in ((1, "KeyboardInterrupt"), (2, "Injected")):
                if 1 <= r + j <= n:
                    inretry[r + j] = kind
        ks = sorted(set(ks) | set(inretry))
        for k in ks:
            f = dict(sc)
            first = dict(sc["ops"][0])
            first["fault"] = k
            if (k % 7 == 3 and k not in inretry) or inretry.get(k) == "KeyboardInterrupt":
                first["exc"] = "KeyboardInterrupt"
            resume = dict(sc["ops"][0])
            ops = [first]
            if k % 5 == 0 and k not in inretry:
                second = dict(sc["ops"][0])
                second["fault"] = max(1, k // 2)
                ops.append(second)
            ops.append(resume)
            if k % 4 == 0 and k not in inretry:
                ops += [{"op": "reset"}, dict(sc["ops"][0])]
            f["ops"] = ops
            scs.append(f)
            if (k % 5 and k % 4) or k in inretry:
                # resumed vs undisturbed run (after an interrupt as after an error: the integrator's cached slopes may belong to an
                # attempt that was never recorded)
                jobs.append((sc, f))
    return scs, jobs


def _run_twin(job):
    a, b = job
    ra, rb = scen.run_plain(a), scen.run_plain(b)
    ra.pop("system"), rb.pop("system")
    return ra, rb


def check(run, replay=None):
    run.rule = ("crash points: for each base scenario (method family x direction x {plain, time events + terminal + callback, state event + "
                "dt-assigning callback} x dense) every position k of the failing call among all right-hand-side / event / callback "
                "invocations is a separate execution (all k when N <= cap, else first 4, last 3 and a seeded sample); some histories add a "
                "second fault, a KeyboardInterrupt or a reset; non-trivial = the fault hit after at least one accepted step or inside "
                "event handling / a callback / a retry; distinct by (scenario, k)")
    if replay and isinstance(replay.get("scenario"), dict) and "modelreplay" in replay["scenario"]:
        modelreplay.phase(run, [], "C12", ('Rows', 'Pieces', 'Events', 'Status', 'Raised', 'FailureCause', 'Dt', 'CallbackCount', 'RunTerminates', 'RequestedStep', 'IntegratorCalls'), replay=replay["scenario"]["modelreplay"])
        return
    if replay:
        sc = replay.get("scenario")
        if isinstance(sc, dict) and "twin" in sc:
            scs, jobs = [], [tuple(sc["twin"])]
        else:
            scs, jobs = odecore.replay_scenarios(replay), []
    else:
        run.mc("OdeSystemMC", "OdeSystem_events_q")
        run.mc("OdeSystemMC", "OdeSystem_fixed")
        if run.tier == "thorough":
            run.mc("OdeSystemMC", "OdeSystem_events")
        bases = gen.number(base_scenarios(run.tier, run.seed), "C12b_")
        counts = core.pool_map(_count, bases)
        run.notes["invocations_per_base_scenario"] = {"min": min(c[0] for c in counts), "max": max(c[0] for c in counts), "total": sum(c[0] for c in counts),
                                                      "base_scenarios_with_a_retry": sum(1 for c in counts if c[1])}
        scs, jobs = expand(bases, counts, run.tier, run.seed)
        # tolerances that cannot be met: the right-hand side is undefined beyond |t| = 1/2; the failure must be reported and resumable
        for m in ["RK45CK", "DOPRI45", "RadauIIA5"] + (["RK87", "AHE", "LobattoIIIC4"] if run.tier == "thorough" else []):
            for (a, b) in ((0.0, 1.0), (0.25, -1.0)):
                sc = gen.base(m, a, b, 0.125, rtol=1e-6, atol=1e-6, problem="nanwall", y0=[1.0], dense=True, budget=60000)
                sc["expectFail"] = [0]
                sc["ops"] = [{"op": "integrate"}, {"op": "integrate", "t": a + (b - a) * 0.25}, {"op": "reset"}, {"op": "integrate", "t": a + (b - a) * 0.25}]
                scs.append(sc)
        gen.number(scs, "C12_")
    if scs:
        traces = odecore.run_traces(scs)
        sites = {}
        for sc, tr in zip(scs, traces):
            run.evaluations += 1
            site = "none"
            commits_before = 0
            for e in tr["events"]:
                if e["e"] == "Counter" and e["new"] == e["old"] + 1:
                    commits_before += 1
                if e["e"] == "ApiRet" and e.get("op") == "integrate" and e.get("site", "none") != "none":
                    site = e["site"]
                    break
            sites[site] = sites.get(site, 0) + 1
            if site != "none" and (commits_before >= 1 or site != "rhs"):
                run.nontrivial.add((sc["id"],))
        run.notes["crash_sites"] = sites
        run.sample({"scenario": scs[len(scs) // 2]})
        odecore.judge_traces(run, scs, traces, PREFIX)
    if jobs:
        res = core.pool_map(_run_twin, jobs)
        cases = []
        for k, (job, (ra, rb)) in enumerate(zip(jobs, res)):
            a, b = job
            fam = scen.family_of(a["method"])
            plain = not a["ops"][0].get("events") and not a["ops"][0].get("cbs")
            if fam in ("fixed", "split") and plain:
                c = twins.case(k, "C12.ResumedRunEqualsUndisturbedRun", "exact", ra, rb, seq="rows")
            else:
                c = twins.case(k, "C12.ResumedRunEqualsUndisturbedRun", "tolerance", ra, rb, rtol=a.get("rtol") or 1e-6, atol=a.get("atol") or 1e-6)
            cases.append(c)
            run.evaluations += 1
        v = run.judge("TwinJudge", {"cases": cases}, name="C12_twins")
        run.traces += len(cases)
        for bad in v["bad"]:
            a, b = jobs[bad["id"]]
            run.violation(bad["clause"], "resume %s fault@%s" % (odecore.describe(a), b["ops"][0].get("fault")),
                          {"tolUnits": cases[bad["id"]]["tolUnits"], "rowsA": len(cases[bad["id"]]["seqA"]), "rowsB": len(cases[bad["id"]]["seqB"])},
                          replay={"twin": [a, b]})
    if not replay:
        # spec -> code: behaviours of the design model with a Fault step (right-hand side, event function or callback raises at a loop position TLC chose) replayed on the real code, resumed, reset
        modelreplay.phase(run, ['OdeSystemSim_fixed', 'OdeSystemSim_adaptive'], "C12", ('Rows', 'Pieces', 'Events', 'Status', 'Raised', 'FailureCause', 'Dt', 'CallbackCount', 'RunTerminates', 'RequestedStep', 'IntegratorCalls'), keep=modelreplay.has_fault)
    run.assumptions += ["faults are injected through the wrapped user callables only (right-hand side, event functions, callbacks); "
                        "failures inside library internals (allocation, linear algebra) are not enumerated",
                        "the resumed result is required bit for bit only for fixed-step explicit/splitting runs without events or callbacks; elsewhere "
                        "a resumed call legitimately re-plans its steps (a new call halves a step larger than the remaining span, the landing on an "
                        "event re-starts), so the comparison is to tolerance"]
