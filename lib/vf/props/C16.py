"""C16 -- Jacobians are the true derivative, from the user's function when one is given.

Design level : JacMaps.tla: polynomial maps with integer coefficients and their exact Jacobians at points with coordinates in eighths
               (TLC checks each Jacobian against an exact central difference); DiffRHS.tla: the dispatch of Jacobian requests as a state
               machine over {request at t1 / t2 / 0, hook, assign, unhook} with or without a `jac` attribute on the user's function; TLC
               explores every history up to length 5 (UserJacobianWins, CounterCountsRequests).
Conformance  : (G) JacobianWrapper on every map x point x array shape x base order, judged against the specification's Jacobian
               (layout [i..., j...], rounding for linear maps, the wrapper's tolerance otherwise); (R) every history TLC generates
               (2868 in quick, all of length <= 5 in thorough) is replayed on the real DiffRHS with a right-hand side that depends on t:
               for each request JacJudge.tla decides who answered, that the right-hand side was evaluated at the requested time and
               near the requested state only, that the value is the derivative at that time, and the counters.
"""
from fractions import Fraction
import math
import numpy as np
from vf import core, num

LEVEL = "model_checking"


def make_map(case, dt):
    m, n, lin = case["m"], case["n"], case["lin"]
    Cm = np.array([[((3 * i + 5 * j) % 7) - 3 for j in range(1, n + 1)] for i in range(1, m + 1)], dtype=dt)
    Qm = np.array([[0 if lin else ((i + 2 * j) % 3) - 1 for j in range(1, n + 1)] for i in range(1, m + 1)], dtype=dt)
    cr = np.array([0 if (lin or n < 2) else (i % 2) for i in range(1, m + 1)], dtype=dt)

    def f(x):
        return Cm @ x + Qm @ (x * x) + cr * x[0] * x[-1]
    return f


def make_qmap(case, dt):
    """the mixed-magnitude family of JacMaps.tla: g_i(x) = sum_j c_ij x_j / w_j + s_i x_n^5"""
    m, n = case["m"], case["n"]
    Cm = np.array([[((3 * i + 5 * j) % 7) - 3 for j in range(1, n + 1)] for i in range(1, m + 1)], dtype=dt)
    w = np.array([v / 8.0 for v in case["W"]], dtype=dt)
    sq = np.array([(i % 3) - 1 for i in range(1, m + 1)], dtype=dt)

    def g(x):
        return Cm @ (x / w) + sq * x[-1] ** 5
    return g


def qfd_job(job):
    from desolver.utilities.utilities import JacobianWrapper
    case, base, adaptive = job[:3]
    reuse = len(job) > 3 and bool(job[3])
    dt = np.dtype("float64")
    m, n = case["m"], case["n"]
    g = make_qmap(case, dt)
    x0 = np.asarray([v / 8.0 for v in case["X"]], dtype=dt)
    out = {"kind": "fd", "m": m, "n": n, "lin": False, "X": case["X"], "dtype": "float64", "xshape": [n], "fshape": [m], "base": base, "adaptive": adaptive,
           "family": "mixed-magnitude", "ran": False, "shapeOk": False, "units": []}
    try:
        kw = {} if base is None else {"base_order": base}
        if not adaptive:
            kw["adaptive"] = False
        w_ = JacobianWrapper(g, **kw)
        if reuse:
            # the same wrapper has differentiated the map at two other points before: nothing of those evaluations may leak into this one
            w_(x0 * 1.25 + 0.5)
            w_(x0 * 0.5 - 0.25)
            out["family"] = "mixed-magnitude, wrapper re-used"
        J = np.asarray(w_(x0))
        out["ran"] = True
        out["shapeOk"] = bool(tuple(J.shape) == (m, n))
        if out["shapeOk"]:
            units = []
            for i in range(m):
                for j in range(n):
                    want = Fraction(case["JNum"][i][j], case["JDen"][i][j])
                    # every term of g is moderate at the point, so the error of a column is judged against the size of ITS entries
                    allow = max(Fraction(1, 10 ** 4), abs(want)) * Fraction(1, 10 ** 4 if not adaptive else 10 ** 6)
                    units.append(int(min(num.CAP, math.ceil(abs(num.frac(J[i, j]) - want) / allow))))
            out["units"] = units
    except Exception as e:      # noqa
        out["error"] = "%s: %s" % (type(e).__name__, str(e)[:100])
    return out


def fd_job(job):
    from desolver.utilities.utilities import JacobianWrapper
    case, dtn, xshape_kind, fshape_kind, base = job[:5]
    adaptive = True if len(job) < 6 else bool(job[5])
    dt = np.dtype(dtn)
    m, n = case["m"], case["n"]
    f = make_map(case, dt)
    xshape = (n,) if xshape_kind == "vec" or n != 4 else (2, 2)
    fshape = (m,) if fshape_kind == "vec" or m != 4 else (2, 2)

    def g(x):
        return np.reshape(f(np.reshape(x, (n,))), fshape)
    x0 = np.reshape(np.asarray([v / 8.0 for v in case["X"]], dtype=dt), xshape)
    out = {"kind": "fd", "m": m, "n": n, "lin": case["lin"], "X": case["X"], "dtype": dtn, "xshape": list(xshape), "fshape": list(fshape), "base": base, "adaptive": adaptive,
           "ran": False, "shapeOk": False, "units": []}
    try:
        kw = {} if base is None else {"base_order": base}
        if not adaptive:
            kw["adaptive"] = False
        Jw = JacobianWrapper(g, **kw)
        J = np.asarray(Jw(x0))
        out["ran"] = True
        out["shapeOk"] = bool(tuple(J.shape) == tuple(fshape) + tuple(xshape))
        if out["shapeOk"]:
            Jf = np.reshape(J, (m, n))          # C-order flattening of [i..., j...] is (i, j) for row-major shapes
            eps = max(num.eps_of(dt), num.eps_of("float64"))      # the finite-difference weights are computed in double precision
            units = []
            for i in range(m):
                for j in range(n):
                    want = Fraction(case["J8"][i][j], 8)
                    scale = max(Fraction(1), abs(want), max(abs(Fraction(v, 8)) for v in case["X"]))
                    if not adaptive:
                        allow = scale * Fraction(1, 10 ** 4)       # fixed-depth extrapolation makes no accuracy promise beyond its order
                    else:
                        allow = scale * (eps * 256 if case["lin"] else Fraction(1, 10 ** 8) if dtn != "float32" else Fraction(1, 10 ** 2))
                    units.append(int(min(num.CAP, math.ceil(abs(num.frac(Jf[i, j]) - want) / allow))))
            out["units"] = units
    except Exception as e:      # noqa
        out["error"] = "%s: %s" % (type(e).__name__, str(e)[:100])
    return out


MARK = {"hook": 7.0, "assign": 11.0, "attr": 13.0}
# the two distinct request times and time 0 of DiffRHS.tla, placed on the time axis in three ways: moderate, far from the origin and
# close together relative to their size, and tiny ("varying t" of the property is any t: a request is answered AT the requested time)
PALETTES = [{"jac1": 1.25, "jac2": -2.5, "jac0": 0.0},
            {"jac1": 2.0e5, "jac2": 2.0e5 + 0.75, "jac0": 0.0},
            {"jac1": 3.0e-9, "jac2": -1.0e-9, "jac0": 0.0}]


def dispatch_job(h):
    import desolver as de
    ops, attr = h["ops"], h["attr"]
    evals = []

    def rhs(t, y):
        evals.append((float(t), np.array(y, copy=True)))
        return np.array([-(1.0 + t * t) * y[0] * y[1], np.sin(t) - y[1] ** 3])

    def true_jac(t, y):
        return np.array([[-(1.0 + t * t) * y[1], -(1.0 + t * t) * y[0]], [0.0, -3.0 * y[1] ** 2]])
    if attr:
        rhs.jac = lambda t, y: MARK["attr"] * np.ones((2, 2))
    out = {"kind": "dispatch", "ops": ops, "attr": attr, "expect": h["expect"], "ran": False, "got": [], "njev": -1, "nfevOk": False,
           "palette": h.get("palette", 0)}
    try:
        w = de.DiffRHS(rhs)
        y = np.array([0.7, -0.4])
        times = PALETTES[h.get("palette", 0)]
        got = []
        for op in ops:
            if op in times:
                t = times[op]
                n0 = len(evals)
                J = np.asarray(w.jac(t, y))
                mine = evals[n0:]
                by = "fd"
                for k, v in MARK.items():
                    if J.shape == (2, 2) and np.all(J == v):
                        by = k
                rec = {"by": by, "timesOk": all(tt == t for tt, _ in mine), "stateOk": all(np.max(np.abs(yy - y)) <= 1.0 for _, yy in mine),
                       "valueOk": True, "nevals": len(mine)}
                if by == "fd":
                    rec["valueOk"] = bool(J.shape == (2, 2) and np.max(np.abs(J - true_jac(t, y))) <= 1e-7 * max(1.0, float(np.max(np.abs(true_jac(t, y))))) and len(mine) > 0)
                got.append(rec)
            elif op == "hook":
                w.hook_jacobian_call(lambda t, y: MARK["hook"] * np.ones((2, 2)))
            elif op == "assign":
                w.jac = lambda t, y: MARK["assign"] * np.ones((2, 2))
            elif op == "unhook":
                w.unhook_jacobian_call()
            elif op == "order":
                w.set_jac_base_order(4)
        out.update(ran=True, got=got, njev=int(w.njev), nfevOk=bool(w.nfev == len(evals)))
    except Exception as e:      # noqa
        out["error"] = "%s: %s" % (type(e).__name__, str(e)[:100])
    return out


def dispatch2_job(h):
    """Two wrappers around ONE user function (spec/DiffRHSGen2.tla): interleaved requests and hooks; what one wrapper answers does not
    depend on what the other was asked (in particular not on the time the other differentiated at)."""
    import copy
    import desolver as de
    ops, attr = h["ops"], h["attr"]
    evals = []

    def rhs(t, y):
        evals.append((float(t), np.array(y, copy=True)))
        return np.array([-(1.0 + t * t) * y[0] * y[1], np.sin(t) - y[1] ** 3])

    def true_jac(t, y):
        return np.array([[-(1.0 + t * t) * y[1], -(1.0 + t * t) * y[0]], [0.0, -3.0 * y[1] ** 2]])
    if attr:
        rhs.jac = lambda t, y: MARK["attr"] * np.ones((2, 2))
    names = ["%s:%s" % (o["w"], o["op"]) for o in ops]
    out = {"kind": "dispatch", "ops": names, "attr": attr, "expect": h["expect"], "ran": False, "got": [], "njev": -1, "nfevOk": False,
           "palette": h.get("palette", 0), "two": h.get("how", "fresh")}
    try:
        wa = de.DiffRHS(rhs)
        if h.get("how") == "copy":
            wb = copy.copy(wa)
        elif h.get("how") == "system":
            wb = de.OdeSystem(wa, np.array([0.7, -0.4]), t=(0.0, 1.0), dt=0.1).equ_rhs      # the copy a system makes of the wrapper it is given
        else:
            wb = de.DiffRHS(rhs)
        ws = {"A": wa, "B": wb}
        n_base = {k: int(w.nfev) for k, w in ws.items()}
        n0_all = len(evals)
        y = np.array([0.7, -0.4])
        times = PALETTES[h.get("palette", 0)]
        got = []
        for o in ops:
            w, op = ws[o["w"]], o["op"]
            if op in times:
                t = times[op]
                n0 = len(evals)
                J = np.asarray(w.jac(t, y))
                mine = evals[n0:]
                by = "fd"
                for k, v in MARK.items():
                    if J.shape == (2, 2) and np.all(J == v):
                        by = k
                rec = {"by": by, "timesOk": all(tt == t for tt, _ in mine), "stateOk": all(np.max(np.abs(yy - y)) <= 1.0 for _, yy in mine),
                       "valueOk": True, "nevals": len(mine)}
                if by == "fd":
                    rec["valueOk"] = bool(J.shape == (2, 2) and np.max(np.abs(J - true_jac(t, y))) <= 1e-7 * max(1.0, float(np.max(np.abs(true_jac(t, y))))) and len(mine) > 0)
                got.append(rec)
            elif op == "hook":
                w.hook_jacobian_call(lambda t, y: MARK["hook"] * np.ones((2, 2)))
            elif op == "unhook":
                w.unhook_jacobian_call()
        nj = sum(int(w.njev) for w in ws.values())
        nf = sum(int(w.nfev) - n_base[k] for k, w in ws.items())
        out.update(ran=True, got=got, njev=nj, nfevOk=bool(nf == len(evals) - n0_all))
    except Exception as e:      # noqa
        out["error"] = "%s: %s" % (type(e).__name__, str(e)[:100])
    return out


def check(run, replay=None):
    thorough = run.tier == "thorough"
    run.rule = ("finite differences: map (6 sizes x linear/quadratic) x point set (5, incl. zeros, small and large components) x dtype x array shapes x "
                "base order; dispatch: every history of {request at t1, t2, 0; hook; assign; unhook} up to length 4 (5 in thorough) x attribute present/absent, "
                "with (t1, t2) moderate / far from the origin and close together / tiny (one placement per history in quick, all three in thorough); "
                "non-trivial = quadratic map / history with at least two requests; distinct by case")
    run.mc("DiffRHS", workers=4)
    maps = run.generate("JacMaps", workers=2)["cases"]
    hist = run.generate("DiffRHSGen", "DiffRHSGen_thorough" if thorough else "DiffRHSGen")["histories"]
    if thorough:
        hist = [dict(h, palette=p) for h in hist for p in range(len(PALETTES))]
    else:
        hist = [dict(h, palette=(k + run.seed) % len(PALETTES)) for k, h in enumerate(hist)]
    jobs = []
    for c in maps:
        for dtn in ("float64", "longdouble") + (("float32",) if thorough else ()):
            for xs, fs in (("vec", "vec"), ("mat", "mat")):
                if xs == "mat" and not (c["n"] == 4 or c["m"] == 4):
                    continue
                for base in (None, 3, 5) if thorough else ((None, 5) if dtn == "float64" else (None,)):
                    jobs.append((c, dtn, xs, fs, base))
                if dtn == "float64":
                    jobs.append((c, dtn, xs, fs, 4, False))       # non-adaptive extrapolation
    gen_out = core.generate("JacMaps", name="JacMaps_q", workers=2)[0]
    qjobs = [(c, base, ad) for c in gen_out["qcases"] for (base, ad) in ((None, True), (4, False), (2, False), (3, False), (5, False), (5, True))]
    qjobs += [(c, base, True, True) for c in gen_out["qcases"] for base in (None, 2, 3, 5)]
    # two wrappers around one function: the interleaved histories of DiffRHSGen2.tla (TLC checks non-interference on all of them)
    hist2 = run.generate("DiffRHSGen2")["histories"]
    hist2 = sorted(hist2, key=lambda h: str(h))
    if not thorough:
        hist2 = [h for k, h in enumerate(hist2) if (k + run.seed) % 4 == 0]
    hist2 = [dict(h, palette=(k + run.seed) % len(PALETTES), how=("fresh", "copy", "system")[k % 3]) for k, h in enumerate(hist2)]
    obs = core.pool_map(fd_job, jobs) + core.pool_map(qfd_job, qjobs) + core.pool_map(dispatch_job, hist, chunksize=50) + core.pool_map(dispatch2_job, hist2, chunksize=50)
    for k, o in enumerate(obs):
        o["id"] = k
        run.evaluations += 1
        if (o["kind"] == "fd" and not o["lin"]) or (o["kind"] == "dispatch" and len(o["expect"]) >= 2):
            run.nontrivial.add((o["kind"], k))
    run.sample({"fd_case": obs[0], "dispatch_case": obs[len(jobs) + len(qjobs) + 100]})
    defaults = {"ran": False, "shapeOk": True, "units": [], "got": [], "expect": [], "njev": 0, "nfevOk": True}
    payload = []
    for o in obs:
        c = dict(defaults)
        c.update({k: v for k, v in o.items() if k in defaults or k in ("id", "kind")})
        payload.append(c)
    v = run.judge("JacJudge", {"cases": payload}, name="C16_jac", shards=8, shard_key="cases")
    run.traces += len(obs)
    for b in v["bad"]:
        if not b["clause"].startswith("C16."):
            continue
        o = obs[b["id"]]
        if o["kind"] == "fd":
            sig = "fd m=%d n=%d %s %s x%s f%s base=%s%s X=%s" % (o["m"], o["n"], o.get("family") or ("linear" if o["lin"] else "quadratic"), o["dtype"], o["xshape"], o["fshape"], o["base"], "" if o.get("adaptive", True) else " non-adaptive", o["X"])
            det = {"units": o["units"], "error": o.get("error"), "k": b.get("k")}
        else:
            sig = "dispatch attr=%s times=%s ops=%s" % (o["attr"], o.get("palette", 0), ",".join(o["ops"]))
            det = {"got": o["got"], "expect": o["expect"], "njev": o["njev"], "error": o.get("error"), "k": b.get("k")}
        run.violation(b["clause"], sig, det, replay=None)
    run.exhaustive = True
    run.assumptions += ["finite-difference accuracy bound: 256 eps x scale for linear maps, 1e-8 x scale for quadratic ones (float32: 1e-3)",
                        "'near the requested state' = within 1.0 of it in every component (the wrapper's largest stencil is 0.5)"]
