"""C10 -- symplectic methods produce symplectic, time-reversible maps.

Design level : Shear.tla: TLC checks on integer 2x2 maps that any composition of drift and kick shears has determinant one and that
               a palindromic composition S satisfies S(-h) S(h) = I (the structural reason splitting methods are symplectic and
               reversible for every separable Hamiltonian).
Conformance  : SymplecticJudge.tla decides (structure) that the class tables of the splitting schemes are compositions of pure drifts
               and pure kicks, palindromic, summing to one, and that the Runge-Kutta tables flagged symplectic satisfy
               b_i a_ij + b_j a_ji = b_i b_j; (maps) from real steps of every symplectic-flagged method, for quadratic and nonlinear
               separable Hamiltonians, several states, both signs of h, default and user kick masks (through set_kick_vars after the
               method was chosen, and through the constructor): the defect M^T J M - J of the one-step map (read column by column for
               quadratic H, central differences of real steps otherwise), the round trip h then -h with ONE integrator object
               re-used for several states, and the energy error over a long fixed-step run.
"""
from fractions import Fraction
import math
import numpy as np
from vf import core, num

LEVEL = "model_checking"

SPLIT = ["SymplecticEulerSolver", "ABAs5o6HSolver", "BABs9o7HSolver"]
RKSYMP = ["GaussLegendre4", "GaussLegendre6", "ImplicitMidpoint"]


def hamiltonians():
    # separable H(q, p) = T(p) + V(q);  state layout y = [q..., p...]  (default mask: second half are the kick variables)
    def quad(t, y):                     # two uncoupled-ish oscillators with coupling: H = p^2/2 + q^T K q / 2
        q, p = y[:2], y[2:]
        K = np.array([[2.0, 0.5], [0.5, 1.0]], dtype=y.dtype)
        return np.concatenate([p, -(K @ q)])

    def quadH(y):
        q, p = y[:2], y[2:]
        K = np.array([[2.0, 0.5], [0.5, 1.0]])
        return 0.5 * p @ p + 0.5 * q @ (K @ q)

    def pend(t, y):                     # H = p^2/2 - cos q0 + 0.5 (q1 - q0)^2 + 0.25 q1^4
        q, p = y[:2], y[2:]
        dV = np.array([np.sin(q[0]) - (q[1] - q[0]), (q[1] - q[0]) + q[1] ** 3], dtype=y.dtype)
        return np.concatenate([p, -dV])

    def pendH(y):
        q, p = y[:2], y[2:]
        return 0.5 * p @ p - np.cos(q[0]) + 0.5 * (q[1] - q[0]) ** 2 + 0.25 * q[1] ** 4
    return {"quad": (quad, quadH, True), "pend": (pend, pendH, False)}


def interleave(f):
    """the same system with state layout [q0, p0, q1, p1] (needs the kick mask [F, T, F, T])"""
    perm = np.array([0, 2, 1, 3])       # position in [q0,q1,p0,p1] of each interleaved component

    def g(t, z):
        y = np.empty_like(z)
        y[perm] = z
        dy = f(t, y)
        return dy[perm]
    return g, perm


J4 = np.block([[np.zeros((2, 2)), np.eye(2)], [-np.eye(2), np.zeros((2, 2))]])


def map_job(job):
    import desolver as de
    name, ham, h, layout, via = job
    f, H, linear = hamiltonians()[ham]
    split = name in SPLIT
    cls = getattr(de.integrators, name)
    dt = np.dtype("float64")
    eps = num.eps_of(dt)
    tol = 1e-11
    out = {"kind": "map", "name": name, "ham": ham, "h": h, "layout": layout, "via": via, "linear": linear, "split": split,
           "stages": int(np.asarray(cls.tableau_intermediate).shape[0])}
    try:
        perm = np.arange(4)
        rhsf = f
        mask = None
        if layout == "interleaved":
            rhsf, perm = interleave(f)
            mask = np.array([False, True, False, True])
        Jm = np.zeros((4, 4))
        Jstd = J4
        # J in the layout: z = P y  =>  J_z = P J P^T
        P = np.zeros((4, 4))
        for a in range(4):
            P[a, perm[a]] = 1.0
        P = P.T if False else P
        Jm = np.zeros((4, 4))
        for a in range(4):
            for b in range(4):
                Jm[a, b] = Jstd[perm[a], perm[b]]
        mask_ok = True
        if via in ("system", "system-setmethod"):
            sysm = de.OdeSystem(rhsf, np.array([0.3, -0.2, 0.1, 0.4])[perm].astype(dt), t=(0.0, 1.0), dt=abs(h), rtol=tol, atol=tol)
            if via == "system-setmethod" and mask is not None:
                # another splitting method (with its default mask) is in place when the method is selected together with the mask
                sysm.method = de.integrators.available_methods(False)["Symplectic Forward Euler"]
                sysm.set_method(cls, staggered_mask=mask)
            else:
                sysm.method = cls
                if mask is not None:
                    sysm.set_kick_vars(mask)
            integ = sysm.integrator
            rhs = sysm.equ_rhs
            if split and mask is not None:
                mask_ok = bool(np.array_equal(np.asarray(integ.staggered_mask, dtype=bool), mask) and
                               np.array_equal(np.asarray(integ.kick_mask) != 0, mask))
        else:
            kw = dict(dtype=dt)
            if split and mask is not None:
                kw["staggered_mask"] = mask
            if not split:
                kw.update(rtol=tol, atol=tol)
            integ = cls((4,), **kw)
            rhs = de.DiffRHS(rhsf)
            if split and mask is not None:
                mask_ok = bool(np.array_equal(np.asarray(integ.kick_mask) != 0, mask))

        short = [0]

        def step(y, hh, t_start=0.0):
            # splitting integrators are memoryless by contract, so ONE object is re-used for all states; an implicit integrator carries a
            # Broyden-updated Jacobian and a cached slope that are only meaningful along one trajectory, so it gets a fresh object per step
            it_ = integ if split else cls((4,), dtype=dt, rtol=tol, atol=tol)
            r = it_(rhs, np.asarray(t_start, dtype=dt), np.asarray(y, dtype=dt), {}, np.asarray(hh, dtype=dt))
            if num.frac(r[1][0]) != num.frac(np.asarray(hh, dtype=dt)):
                short[0] += 1          # the stage solve failed and the step was shortened: not an observation of the h-map
            return np.asarray(y, dtype=dt) + np.asarray(r[1][1]), r[1][0]
        states = [np.array([0.3, -0.2, 0.1, 0.4])[perm], np.array([-1.1, 0.7, 0.5, -0.3])[perm], np.array([0.05, 0.9, -0.6, 0.2])[perm]]
        worst_symp_units, worst_class, worst_rev, worst_rev_tol = 0, -99, 0, 0
        for y0 in states:
            if linear:
                cols = []
                base, _ = step(np.zeros(4), h)
                for a in range(4):
                    e = np.zeros(4)
                    e[a] = 1.0
                    ya, _ = step(e, h)
                    cols.append(ya - base)
                M = np.array(cols).T
                Dm = M.T @ Jm @ M - Jm
                scale = max(1.0, float(np.max(np.abs(M))) ** 2)
                unit = float(eps) * scale if split else tol * 10 * scale
                worst_symp_units = max(worst_symp_units, int(min(num.CAP, math.ceil(float(np.max(np.abs(Dm))) / unit))))
            else:
                d = 1e-5
                cols = []
                for a in range(4):
                    e = np.zeros(4)
                    e[a] = d
                    yp, _ = step(y0 + e, h)
                    ym, _ = step(y0 - e, h)
                    cols.append((yp - ym) / (2 * d))
                M = np.array(cols).T
                Dm = M.T @ Jm @ M - Jm
                worst_class = max(worst_class, num.log10_class(float(np.max(np.abs(Dm))), 1.0))
            # a real round trip: forward from t = 0, back from t = h; the next state then starts at the time the previous round trip ended
            y1, dT = step(y0, h, 0.0)
            y2, _ = step(y1, -h, h)
            diff = np.max(np.abs(y2 - y0))
            scale = max(1.0, float(np.max(np.abs(y0))), float(np.max(np.abs(y1))))
            worst_rev = max(worst_rev, int(min(num.CAP, math.ceil(float(diff) / (float(eps) * scale)))))
            worst_rev_tol = max(worst_rev_tol, int(min(num.CAP, math.ceil(float(diff) / (tol * 10)))))
        out.update(observed=(short[0] == 0), shortened=short[0], sympUnits=worst_symp_units, sympClass=int(worst_class), revUnits=worst_rev, revTolUnits=worst_rev_tol, maskOk=mask_ok)
    except Exception as e:      # noqa
        out.update(observed=False, sympUnits=0, sympClass=0, revUnits=0, revTolUnits=0, maskOk=False, error="%s: %s" % (type(e).__name__, str(e)[:120]))
    return out


def coarse_job(job):
    """A step so coarse for the state that the stage solve fails at the requested size: whatever step the method hands back as accepted is
    the method's map OF THE SIZE IT REPORTS - a fresh integrator asked for exactly that size takes it at once and arrives at the same state
    (an unconverged retry handed back as accepted is no map of the method at all, let alone a symplectic one)."""
    import desolver as de
    name, h = job
    f, H, linear = hamiltonians()["pend"]
    cls = getattr(de.integrators, name)
    dt = np.dtype("float64")
    tol = 1e-11
    out = {"kind": "coarse", "name": name, "ham": "pend", "h": h, "layout": "default", "via": "direct", "observedCoarse": 0, "shortTolUnits": 0, "gaveUp": 0}
    try:
        rhs = de.DiffRHS(f)
        worst = 0
        seen = 0
        for y0 in (np.array([0.3, -0.2, 0.8, 0.4]), np.array([2.5, 0.7, 1.5, -0.3]), np.array([-1.1, 2.9, 0.5, 1.3]), np.array([3.0, -2.0, 1.0, 2.0])):
            try:
                r = cls((4,), dtype=dt, rtol=tol, atol=tol)(rhs, np.asarray(0.0, dtype=dt), y0.astype(dt), {}, np.asarray(h, dtype=dt))
            except de.exception_types.FailedToMeetTolerances:
                out["gaveUp"] += 1
                continue
            dT, y1 = r[1][0], y0 + np.asarray(r[1][1])
            if num.frac(dT) == num.frac(np.asarray(h, dtype=dt)):
                continue            # taken at the requested size: the ordinary map cases cover it
            try:
                r2 = cls((4,), dtype=dt, rtol=tol, atol=tol)(rhs, np.asarray(0.0, dtype=dt), y0.astype(dt), {}, np.asarray(dT, dtype=dt))
            except de.exception_types.FailedToMeetTolerances:
                continue
            if num.frac(r2[1][0]) != num.frac(dT):
                continue            # does not converge at that size from a cold start either: nothing to compare with
            seen += 1
            y1b = y0 + np.asarray(r2[1][1])
            gap = float(np.max(np.abs(y1b - y1))) / (1000 * tol * max(1.0, float(np.max(np.abs(y1)))))
            worst = max(worst, int(min(num.CAP, math.ceil(gap))) if np.isfinite(gap) else num.CAP)
        out.update(observedCoarse=seen, shortTolUnits=worst)
    except Exception as e:      # noqa
        out.update(error="%s: %s" % (type(e).__name__, str(e)[:120]), shortTolUnits=num.CAP)
    return out


def energy_job(job):
    import desolver as de
    name, ham, h, nsteps, layout = job
    f, H, linear = hamiltonians()[ham]
    out = {"kind": "energy", "name": name, "ham": ham, "h": h, "nsteps": nsteps, "layout": layout}
    try:
        perm = np.arange(4)
        rhsf = f
        mask = None
        if layout == "interleaved":
            rhsf, perm = interleave(f)
            mask = np.array([False, True, False, True])
        y0 = np.array([0.3, -0.2, 0.1, 0.4])[perm]
        sysm = de.OdeSystem(rhsf, y0, t=(0.0, h * nsteps), dt=h, rtol=1e-12, atol=1e-12)
        sysm.method = getattr(de.integrators, name)
        if mask is not None:
            sysm.set_kick_vars(mask)
        sysm.integrate()
        inv = np.argsort(perm)
        ys = np.asarray(sysm.y)
        E = np.array([H(np.asarray(row)[inv] if layout == "interleaved" else row) for row in ys])
        # undo the layout: y_std[perm[a]] = z[a]
        if layout == "interleaved":
            E = []
            for row in ys:
                ystd = np.empty(4)
                ystd[perm] = row
                E.append(H(ystd))
            E = np.array(E)
        dE = np.abs(E - E[0])
        half = len(dE) // 2
        a, b = float(np.max(dE[1:half])), float(np.max(dE[half:]))
        growth = int(min(num.CAP, math.ceil(b / max(a, 1e-300))))
        out.update(observed=bool(len(ys) >= nsteps), growth=growth, first=a, second=b)
    except Exception as e:      # noqa
        out.update(observed=False, growth=0, error="%s: %s" % (type(e).__name__, str(e)[:120]))
    return out


def structure_cases():
    import desolver as de
    cases = []
    e = num.eps_of("float64")
    for n in SPLIT:
        T = np.asarray(getattr(de.integrators, n).tableau_intermediate)
        table = {Fraction(0): 0}

        def idf(x):
            f = num.frac(x)
            if f not in table:
                table[f] = len(table)
            return table[f]
        cases.append({"kind": "structure-split", "name": n, "driftIds": [idf(x) for x in T[:, 1]], "kickIds": [idf(x) for x in T[:, 2]],
                      "driftSumUnits": num.units(np.float64(1.0), sum(num.frac(x) for x in T[:, 1]), Fraction(len(T)), e),
                      "kickSumUnits": num.units(np.float64(1.0), sum(num.frac(x) for x in T[:, 2]), Fraction(len(T)), e)})
    for n in RKSYMP:
        cls = getattr(de.integrators, n)
        A = np.asarray(cls.tableau_intermediate)[:, 1:]
        b = np.asarray(cls.tableau_final)[0, 1:]
        worst = 0
        for i in range(len(b)):
            for j in range(len(b)):
                lhs = num.frac(b[i]) * num.frac(A[i, j]) + num.frac(b[j]) * num.frac(A[j, i]) - num.frac(b[i]) * num.frac(b[j])
                worst = max(worst, int(min(num.CAP, math.ceil(abs(lhs) / e))))
        cases.append({"kind": "structure-rk", "name": n, "mUnits": worst})
    return cases


def check(run, replay=None):
    import desolver as de
    thorough = run.tier == "thorough"
    run.rule = ("maps: symplectic-flagged method (3 splitting, Gauss-Legendre 4/6, implicit midpoint) x Hamiltonian (quadratic, nonlinear separable) x "
                "h (both signs, several sizes) x state layout / kick mask (default, interleaved via set_kick_vars after set_method, interleaved via the "
                "constructor) x 3 states with one re-used integrator object; energy: long fixed-step runs; non-trivial = map case on the nonlinear "
                "Hamiltonian or with a user mask; distinct by (method, Hamiltonian, h, layout, via)")
    run.mc("ShearMC", "Shear", workers=4)
    flagged = [c.__name__ for c in de.integrators.explicit_methods() + de.integrators.implicit_methods() if getattr(c, "symplectic", False)]
    run.notes["symplectic_flagged_methods"] = flagged
    jobs = []
    hs = (0.25, -0.25, 0.0625) + ((0.5, -0.0625) if thorough else ())
    for n in SPLIT + RKSYMP:
        for ham in ("quad", "pend"):
            for h in hs:
                layouts = [("default", "direct"), ("default", "system")]
                if n in SPLIT:
                    layouts += [("interleaved", "system"), ("interleaved", "direct"), ("interleaved", "system-setmethod")]
                for layout, via in layouts:
                    jobs.append((n, ham, h, layout, via))
    ejobs = []
    for n in SPLIT + RKSYMP:
        for ham in ("quad", "pend"):
            ejobs.append((n, ham, 0.125 if n in SPLIT else 0.2, (4000 if thorough else 1200) if n in SPLIT else (1500 if thorough else 400), "default"))
        if n in SPLIT:
            ejobs.append((n, "pend", 0.125, 1200, "interleaved"))
    cjobs = [(n, h) for n in RKSYMP for h in (3.0, -3.0, 4.0, 8.0, -8.0) + ((12.0, -4.0, 6.0) if thorough else ())]
    cobs = core.pool_map(coarse_job, cjobs)
    run.notes["coarse_steps_compared"] = sum(o["observedCoarse"] for o in cobs)
    obs = core.pool_map(map_job, jobs) + core.pool_map(energy_job, ejobs) + structure_cases() + cobs
    for k, o in enumerate(obs):
        o["id"] = k
        run.evaluations += 1
        if o["kind"] == "map" and (not o["linear"] or o["layout"] != "default"):
            run.nontrivial.add((o["name"], o["ham"], o["h"], o["layout"], o["via"]))
    run.notes["worst"] = {"sympUnits": max(o.get("sympUnits", 0) for o in obs), "sympClass": max(o.get("sympClass", -99) for o in obs if o["kind"] == "map" and not o["linear"]),
                          "revUnits_split": max(o.get("revUnits", 0) for o in obs if o.get("split")), "revTolUnits_rk": max(o.get("revTolUnits", 0) for o in obs if o["kind"] == "map" and not o.get("split")),
                          "energyGrowth": max(o.get("growth", 0) for o in obs)}
    run.sample({"map_case": obs[0], "energy_case": obs[len(jobs)]})
    defaults = {"observed": True, "linear": False, "split": False, "stages": 1, "sympUnits": 0, "sympClass": -99, "revUnits": 0, "revTolUnits": 0, "maskOk": True,
                "growth": 0, "driftIds": [], "kickIds": [], "driftSumUnits": 0, "kickSumUnits": 0, "mUnits": 0, "shortTolUnits": 0}
    payload = []
    for o in obs:
        c = dict(defaults)
        c.update({k: v for k, v in o.items() if k in defaults or k in ("id", "kind")})
        payload.append(c)
    v = run.judge("SymplecticJudge", {"cases": payload}, name="C10_symp")
    run.traces += len(obs)
    for b in v["bad"]:
        o = obs[b["id"]]
        sig = "%s %s" % (o["kind"], o["name"]) + ("" if o["kind"].startswith("structure") else " %s h=%s layout=%s%s" % (o.get("ham"), o.get("h"), o.get("layout"), " via=%s" % o["via"] if "via" in o else ""))
        run.violation(b["clause"], sig, {k: v_ for k, v_ in o.items() if k not in ("id",)}, replay=None)
    run.assumptions += ["symplecticity for nonlinear Hamiltonians is observed through central differences of real steps (noise ~1e-10), bound 1e-8; the structural "
                        "argument (composition of shears / table identity) carries the 'every state' quantifier",
                        "masks: default (second half) and interleaved [F,T,F,T]"]
