"""C14 -- bracketing root finders return certified roots.

Design level : Contracts.tla defines the function family (products of (x - r)^m with dyadic roots and odd/even multiplicities, jump
               functions, constants) and, for every function x bracket, the ground truth: whether f changes sign over the bracket, the
               sign changes strictly inside it, roots at an end point; TLC checks the family itself (a sign change over the bracket means an
               odd number of sign changes inside).
Conformance  : the TLC-generated lattice (1716 function x bracket cells) x scale (1e-6..1e9) x tolerance (eps..1e-3) x dtype is executed on
               the real brentsroot and brentsrootvec (vector lengths 1..16, one cell per component); BrentJudge.tla decides the contract
               from facts computed in exact arithmetic (point inside the bracket, distance to the nearest sign change in units of the
               tolerance, residual, flag, scalar/vector agreement).
"""
from fractions import Fraction
import math
import numpy as np
from vf import core, num

LEVEL = "model_checking"


def make_f(case, s, dt):
    kind = case["kind"]
    roots = [np.asarray(r / 8.0, dtype=dt) for r in case["roots"]]
    mult = case["mult"]
    sv = np.asarray(s, dtype=dt)
    if kind == "poly":
        def f(x):
            out = sv * np.ones_like(x)
            for r, m in zip(roots, mult):
                out = out * (x - r) ** m
            return out
    elif kind == "jump":
        def f(x):
            return sv * np.sign(x - roots[0]) * (1 + np.abs(x))
    elif kind == "decay":
        def f(x):
            return sv * (x - roots[0]) / (1 + x * x)
    else:
        def f(x):
            return sv * np.ones_like(x)
    return f


def exact_sign_and_small(case, s, x, tol):
    """sign of f(x) and whether |f(x)| <= tol, in exact arithmetic"""
    xf = num.frac(x)
    if case["kind"] == "poly":
        v = Fraction(s)
        for r, m in zip(case["roots"], case["mult"]):
            v *= (xf - Fraction(r, 8)) ** m
    elif case["kind"] == "jump":
        d = xf - Fraction(case["roots"][0], 8)
        v = Fraction(s) * ((d > 0) - (d < 0)) * (1 + abs(xf))
    elif case["kind"] == "decay":
        v = Fraction(s) * (xf - Fraction(case["roots"][0], 8)) / (1 + xf * xf)
    else:
        v = Fraction(s)
    return ((v > 0) - (v < 0)), abs(v) <= tol


def batch_job(job):
    from desolver.utilities.optimizer import brentsroot, brentsrootvec
    cases, s, tolv, dtn = job
    dt = np.dtype(dtn)
    eps4 = 4 * num.eps_of(dt)
    tol_eff = max(Fraction(tolv) if tolv is not None else Fraction(0), eps4)
    out = []
    fs = [make_f(c, s, dt) for c in cases]
    scal = []
    for c, f in zip(cases, fs):
        a, b = np.asarray(c["a"] / 8.0, dtype=dt), np.asarray(c["b"] / 8.0, dtype=dt)
        try:
            x, ok = brentsroot(f, [a, b], tol=(None if tolv is None else np.asarray(tolv, dtype=dt)))
            scal.append((np.asarray(x), bool(ok), True))
        except Exception as e:     # noqa
            scal.append((np.asarray(np.nan), False, False))
    # vectorised, in groups of up to 16 functions sharing a bracket
    vec = [None] * len(cases)
    groups = {}
    for k, c in enumerate(cases):
        groups.setdefault((c["a"], c["b"]), []).append(k)
    for (a8, b8), idxs in groups.items():
        for g0 in range(0, len(idxs), 16):
            grp = idxs[g0:g0 + 16]
            a, b = np.asarray(a8 / 8.0, dtype=dt), np.asarray(b8 / 8.0, dtype=dt)
            try:
                xs, oks = brentsrootvec([fs[k] for k in grp], [a, b], tol=(None if tolv is None else np.asarray(tolv, dtype=dt)))
                for j, k in enumerate(grp):
                    vec[k] = (np.asarray(xs[j]), bool(oks[j]), True)
            except Exception as e:     # noqa
                for k in grp:
                    vec[k] = (np.asarray(np.nan), False, False)
    for k, c in enumerate(cases):
        lo, hi = sorted((Fraction(c["a"], 8), Fraction(c["b"], 8)))
        for variant, (x, ok, ran) in (("scalar", scal[k]), ("vec", vec[k])):
            rec = {"shape": c["shape"], "a": c["a"], "b": c["b"], "s": s, "tol": tolv, "dtype": dtn, "variant": variant,
                   "signChange": c["signChange"], "endZero": c["endZero"], "anyRoot": c["anyRoot"], "success": ok, "ran": ran, "inside": False, "gap": -1,
                   "residualSmall": False, "endSmall": False, "agree": True}
            if ran and np.isfinite(float(x)):
                xf = num.frac(x)
                rec["inside"] = bool(lo <= xf <= hi)
                unit = tol_eff * max(Fraction(1), abs(xf))
                if c["changes"]:
                    rec["gap"] = int(min(num.CAP, math.ceil(min(abs(xf - Fraction(r, 8)) for r in c["changes"]) / unit)))
                rec["residualSmall"] = bool(exact_sign_and_small(c, s, x, tol_eff)[1])
            rec["endSmall"] = bool(exact_sign_and_small(c, s, np.asarray(c["a"] / 8.0, dtype=dt), tol_eff)[1] or
                                   exact_sign_and_small(c, s, np.asarray(c["b"] / 8.0, dtype=dt), tol_eff)[1])
            if variant == "vec" and scal[k][2] and ran:
                xs_, oks_ = scal[k][0], scal[k][1]
                same_flag = oks_ == ok
                close = True
                if ok and oks_ and np.isfinite(float(x)) and np.isfinite(float(xs_)):
                    close = abs(num.frac(x) - num.frac(xs_)) <= 4 * tol_eff * max(Fraction(1), abs(num.frac(x)))
                rec["agree"] = bool(same_flag and close)
            out.append(rec)
    # brackets that are ALREADY narrower than the tolerance when the call is made (what a first call leaves behind, fed back): they
    # still straddle the sign change, so the contract is the same - a point within tolerance of it, success reported - although no
    # iteration is needed and |f| at the ends may be far above the tolerance (jumps, steep crossings)
    for k, c in enumerate(cases):
        if not (c["signChange"] and len(c["changes"]) == 1 and c["kind"] in ("jump", "poly")):
            continue
        r8 = c["changes"][0]
        r = np.asarray(r8 / 8.0, dtype=dt)
        delta = max(float(tol_eff) * max(1.0, abs(float(r))) / 4.0, 4.0 * float(np.spacing(np.abs(r) + np.asarray(0, dtype=dt))))
        a, b = np.asarray(r - np.asarray(delta, dtype=dt), dtype=dt), np.asarray(r + np.asarray(delta, dtype=dt), dtype=dt)
        if not (num.frac(a) < Fraction(r8, 8) < num.frac(b)):
            continue
        if (k + int(abs(r8))) % 2:
            a, b = b, a
        f = fs[k]
        results = []
        try:
            x, ok = brentsroot(f, [a, b], tol=(None if tolv is None else np.asarray(tolv, dtype=dt)))
            results.append(("scalar-narrow", np.asarray(x), bool(ok), True))
        except Exception:     # noqa
            results.append(("scalar-narrow", np.asarray(np.nan), False, False))
        try:
            xs, oks = brentsrootvec([f, f], [np.array(a), np.array(b)], tol=(None if tolv is None else np.asarray(tolv, dtype=dt)))
            results.append(("vec-narrow", np.asarray(xs[1]), bool(oks[1]), True))
        except Exception:     # noqa
            results.append(("vec-narrow", np.asarray(np.nan), False, False))
        lo, hi = sorted((num.frac(a), num.frac(b)))
        for variant, x, ok, ran in results:
            rec = {"shape": c["shape"], "a": c["a"], "b": c["b"], "s": s, "tol": tolv, "dtype": dtn, "variant": variant,
                   "signChange": True, "endZero": False, "anyRoot": True, "success": ok, "ran": ran, "inside": False, "gap": -1,
                   "residualSmall": False, "endSmall": False, "agree": True}
            if ran and np.isfinite(float(x)):
                xf = num.frac(x)
                rec["inside"] = bool(lo <= xf <= hi)
                unit = tol_eff * max(Fraction(1), abs(xf))
                rec["gap"] = int(min(num.CAP, math.ceil(abs(xf - Fraction(r8, 8)) / unit)))
                rec["residualSmall"] = bool(exact_sign_and_small(c, s, x, tol_eff)[1])
            out.append(rec)
    return out


def check(run, replay=None):
    thorough = run.tier == "thorough"
    run.rule = ("cells = function x bracket lattice generated by TLC (13 functions x 210 ordered brackets incl. wide lopsided ones) x scale x tolerance x dtype x {scalar, vectorised}; "
                "non-trivial = cell whose function changes sign over the bracket; distinct by cell")
    gen = run.generate("Contracts", workers=2)
    cases = gen["cases"]
    scales = [1e-6, 1e-3, 1.0, 37.0, 1e3, 1e6, 1e9] if thorough else [1e-6, 1.0, 1e3, 1e9]
    tols = [None, 1e-12, 1e-8, 1e-3] if thorough else [None, 1e-8, 1e-3]
    dts = ["float64", "float32", "longdouble"]
    jobs = []
    n = 0
    for s in scales + [-x for x in scales[:2]]:
        for tolv in tols:
            for dtn in dts:
                n += 1
                if dtn == "float32" and tolv is not None and tolv < 1e-6:
                    continue
                jobs.append((cases, s, tolv, dtn))
    res = core.pool_map(batch_job, jobs)
    obs = [r for batch in res for r in batch]
    for k, o in enumerate(obs):
        o["id"] = k
        if o["signChange"]:
            run.nontrivial.add((o["shape"], o["a"], o["b"], o["s"], o["tol"], o["dtype"], o["variant"]))
    run.evaluations += len(obs)
    run.sample({"cell": obs[7], "family_case": cases[5]})
    keys = ("id", "signChange", "endZero", "anyRoot", "success", "ran", "inside", "gap", "residualSmall", "endSmall", "agree")
    v = run.judge("BrentJudge", {"cases": [{k: o[k] for k in keys} for o in obs]}, name="C14_brent", shards=16, shard_key="cases")
    run.traces += len(obs)
    for b in v["bad"]:
        o = obs[b["id"]]
        fam = cases[[c["shape"] for c in cases].index(o["shape"])]
        run.violation(b["clause"], "%s %s roots=%s mult=%s bracket=[%s/8,%s/8] s=%g tol=%s %s" % (o["variant"], fam["kind"], fam["roots"], fam["mult"], o["a"], o["b"], o["s"], o["tol"], o["dtype"]),
                      {k: o[k] for k in ("success", "inside", "gap", "residualSmall", "endSmall", "agree", "signChange", "endZero")}, replay=None)
    run.exhaustive = True
    run.assumptions += ["'a root at an end point' is read as |f(end)| <= tol (so a constant below the tolerance may be reported as a success)",
                        "tolerances below 4 eps of the dtype are raised to 4 eps by the solvers; distances are measured in units of tol * max(1, |x|)"]
