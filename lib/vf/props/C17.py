"""C17 -- interval lookup and Hermite interpolation primitives are exact.

Design level : LookupAlg.tla (the bisection loop, one action per iteration, all 501
               arrays x 21 queries, result = Lookup!Bisect) and HermiteMC.tla (exact
               integer identities: the Hermite basis reproduces every cubic of the scope,
               its gradient is the derivative, end values/slopes are reproduced).
Conformance  : the case lists are produced by TLC (LookupGen, HermiteMC with VF_OUT);
               the actuator runs the real search_bisection / search_bisection_vec /
               CubicHermiteInterp on every case; LookupJudge / HermiteJudge decide every
               observation and the completeness of the enumeration.
"""
from fractions import Fraction
import numpy as np
from vf import num

LEVEL = "model_checking"


def _variants(tier):
    vs = []
    dts = ["float64", "float32", "longdouble", "int64"]
    for fn in ("scalar", "vec"):
        for dt in dts:
            for cont in (("array", "list") if fn == "scalar" else ("array",)):
                for aff in ((1, 0), (-4, 3)) if dt != "int64" else ((1, 0),):
                    # value = (v + off) * 2**sh  (sh = 1 -> v, sh = -4 -> v/4 ... exact dyadic maps)
                    vs.append("%s|%s|%s|%d|%d" % (fn, dt, cont, aff[0], aff[1]))
    # knots of a coarser type than the queries: integer knots k (the grid halved), queries on the half-integers as float64 / longdouble
    for fn in ("scalar", "vec"):
        for qdt in ("float64", "longdouble"):
            vs.append("%s|int64>%s|array|-1|0" % (fn, qdt))
    vs.append("scalar|int64>float64|list|-1|0")
    # ONE list object per array length, refilled in place, the same query asked of consecutive contents: the answer depends on the
    # contents, not on the identity of the container or on the previous call
    vs.append("scalar|float64|listreuse|1|0")
    vs.append("scalar|int64|listreuse|1|0")
    return vs


def _map(v, sh, off, dt):
    # exact, order preserving: (v - off) * 2**sh/ (sh=1: identity scaled by 1)
    if sh == 1:
        return np.asarray(v - off, dtype=dt)
    return np.asarray((v - off) * (2.0 ** sh), dtype=dt)


def observe_lookup(gen, variants):
    import desolver.utilities as deutil
    cases = []
    qs = gen["queries"]
    cid = 0
    for var in variants:
        fn, dt, cont, sh, off = var.split("|")
        sh, off = int(sh), int(off)
        qdt = np.dtype(dt.split(">")[1]) if ">" in dt else np.dtype(dt)
        dt = np.dtype(dt.split(">")[0])
        if cont == "listreuse":
            pool = {}
            results = {}
            for q in qs:
                qx = _map(q, sh, off, qdt)
                for ai, a in enumerate(gen["arrays"]):
                    lst = pool.setdefault(len(a), [None] * len(a))
                    for j, x in enumerate(a):
                        lst[j] = np.asarray(_map(x, sh, off, dt))       # refilled IN PLACE: same object, same length, other contents
                    results.setdefault(ai, []).append(int(deutil.search_bisection(lst, qx)))
            for ai, a in enumerate(gen["arrays"]):
                cases.append({"id": cid, "variant": var, "a": list(a), "qs": list(qs), "res": results[ai]})
                cid += 1
            continue
        for a in gen["arrays"]:
            arr = np.array([_map(x, sh, off, dt) for x in a], dtype=dt)
            qv = [_map(q, sh, off, qdt) for q in qs]
            if fn == "scalar":
                arg = arr if cont == "array" else [np.asarray(x) for x in arr]
                res = [int(deutil.search_bisection(arg, q)) for q in qv]
            else:
                out = deutil.search_bisection_vec(arr, np.array(qv, dtype=qdt))
                res = [int(x) for x in out]
            cases.append({"id": cid, "variant": var, "a": list(a), "qs": list(qs), "res": res})
            cid += 1
    return cases


def observe_hermite(gen, variants):
    from desolver.utilities.interpolation import CubicHermiteInterp
    cubics = np.array(gen["cubics"], dtype=object)
    out = []
    cid = 0
    for var in variants:
        # "int64": the piece's DATA (knots, values, slopes) are integers, the query is a float64 (the integer cubics of the scope have
        # integer values and slopes at the integer knots): the value between the knots is the cubic's, not a truncated one
        ddt = np.dtype("int64") if var == "int64" else np.dtype(var)
        dt = np.dtype("float64") if var == "int64" else np.dtype(var)
        eps = num.eps_of(dt)
        C = np.array(gen["cubics"], dtype=ddt)  # (m, 4)

        def p(t):
            return C[:, 0] + C[:, 1] * t + C[:, 2] * t * t + C[:, 3] * t * t * t

        def dp(t):
            return C[:, 1] + 2 * C[:, 2] * t + 3 * C[:, 3] * t * t
        for case in gen["cases"]:
            t0, t1, k, d = case["t0"], case["t1"], case["k"], case["d"]
            T0, T1 = np.asarray(t0, dtype=ddt), np.asarray(t1, dtype=ddt)
            interp = CubicHermiteInterp(T0, T1, p(T0), p(T1), dp(T0), dp(T1))
            t = np.asarray(k / 4.0, dtype=dt)
            v = interp(t)
            g = interp.grad(t)
            d3 = Fraction(d) ** 3
            d2dl = Fraction(d) ** 2 * abs(t1 - t0)
            vu = [num.units(v[j], Fraction(case["p64"][j], 64), Fraction(case["vs"][j]) / d3, eps) for j in range(len(C))]
            gu = [num.units(g[j], Fraction(case["d16"][j], 16), Fraction(case["gs"][j]) / d2dl, eps) for j in range(len(C))]
            at_end = (k == 4 * t0) or (k == 4 * t1)
            ev = eg = True
            if at_end:
                pe, me = (p(T0), dp(T0)) if k == 4 * t0 else (p(T1), dp(T1))
                ev = bool(np.array_equal(v, pe))
                eg = bool(np.array_equal(g, me))
            # scalar-valued piece for one cubic must agree bit-for-bit with the array-valued one
            j = (cid * 7) % len(C)
            si = CubicHermiteInterp(T0, T1, p(T0)[j], p(T1)[j], dp(T0)[j], dp(T1)[j])
            agree = bool(si(t) == v[j]) and bool(si.grad(t) == g[j])
            out.append({"id": cid, "variant": var, "t0": t0, "t1": t1, "k": k, "vu": vu, "gu": gu,
                        "atEnd": bool(at_end), "endValExact": ev, "endGradExact": eg, "agree": agree})
            cid += 1
    return out


def check(run, replay=None):
    thorough = run.tier == "thorough"
    run.rule = ("bisection: all strictly increasing arrays of length 1..7 over a 9-point grid x 21 queries "
                "(generated by TLC) x variants (function, dtype, container, affine map); Hermite: all integer "
                "cubics with coefficients in -C..C x 20 oriented intervals x 13 points (generated by TLC with "
                "exact expected values) x dtypes; non-trivial = query strictly inside the array range / point "
                "not an end point")
    # design level
    run.mc("LookupAlg", workers=4)
    gen = run.generate("LookupGen")
    variants = _variants(run.tier)
    cases = observe_lookup(gen, variants)
    run.evaluations += sum(len(c["qs"]) for c in cases)
    for c in cases:
        if len(c["a"]) >= 3:
            run.nontrivial.add(("bis", tuple(c["a"])))
    run.sample({"bisect_case": cases[len(cases) // 3]})
    v = run.judge("LookupJudge", {"cases": cases, "variants": variants, "exhaustive": True}, shards=8, shard_key=None)
    run.traces += v["n"]
    byid = {c["id"]: c for c in cases}
    for b in v["bad"]:
        c = byid.get(b["id"])
        sig = "bisect %s" % (c["variant"] if c else "coverage")
        run.violation(b["clause"], sig, {"array": c and c["a"], "q": b.get("q"), "got": b.get("got"), "want": b.get("want")},
                      replay={"part": "bisect", "variant": c and c["variant"], "a": c and c["a"]})
    # Hermite
    hcfg = "HermiteMC_thorough" if thorough else "HermiteMC"
    hgen = run.generate("HermiteMC", hcfg, workers=4)
    hvars = ["float64", "longdouble", "int64"] + (["float32"] if thorough else [])
    obs = observe_hermite(hgen, hvars)
    run.evaluations += sum(len(o["vu"]) for o in obs)
    for o in obs:
        if not o["atEnd"]:
            run.nontrivial.add(("herm", o["t0"], o["t1"], o["k"]))
    run.sample({"hermite_obs": {k: (x if not isinstance(x, list) else x[:8]) for k, x in obs[5].items()}})
    hv = run.judge("HermiteJudge", {"cases": obs, "expectedCases": len(hgen["cases"]) * len(hvars)}, shards=8, shard_key="cases")
    # sharded coverage is judged per shard against the global count -> recompute globally below
    hv["bad"] = [b for b in hv["bad"] if b["clause"] != "C17.Hermite.coverage"]
    if len({(o["variant"], o["t0"], o["t1"], o["k"]) for o in obs}) != len(hgen["cases"]) * len(hvars):
        hv["bad"].append({"id": -1, "clause": "C17.Hermite.coverage", "j": 0, "got": len(obs)})
    run.traces += hv["n"]
    hby = {o["id"]: o for o in obs}
    for b in hv["bad"]:
        o = hby.get(b["id"])
        sig = "hermite %s t0=%s t1=%s k=%s" % ((o["variant"], o["t0"], o["t1"], o["k"]) if o else ("-", "-", "-", "-"))
        cub = hgen["cubics"][b["j"] - 1] if b.get("j") else None
        run.violation(b["clause"], sig, {"cubic": cub, "units": b.get("got")}, replay={"part": "hermite", "obs": o and {k: o[k] for k in ("variant", "t0", "t1", "k")}})
    run.exhaustive = True
    run.assumptions += ["TLC's integer arithmetic (exact, 32-bit, no overflow in the scope: checked by the identities themselves)",
                        "fractions.Fraction conversion of IEEE values is exact",
                        "float16 and the torch backend are out of scope"]
