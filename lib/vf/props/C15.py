"""C15 -- nonlinear system solvers only claim success at an actual solution.

Design level : Systems.tla defines the system family with its ground truth (which systems have a root), checks the no-root claims on
               an integer grid and that the lattice reaches all four dispatch paths (newtontrustregion, hybrj, front end -> MINPACK,
               front end -> built-in dogleg) with and without a root.
Conformance  : every cell of the TLC-generated lattice (system x n = 1..12 x array shape x solver x dtype x user / finite-difference
               Jacobian x good / bad / singular guess) is one real solver call; the residual is observed by calling the user's own F at
               the returned point; SolverJudge.tla decides: success => ||F|| <= 10 tol sqrt(n), no root => no success, result has
               the shape of the guess.
"""
import math
import numpy as np
from vf import core, num, traced

LEVEL = "model_checking"


def build(cell, dt):
    n, kind = cell["n"], cell["kind"]
    r = np.asarray([((i % 5) - 2) / 4.0 for i in range(n)], dtype=dt)
    if kind == "cubic":
        def F(x):
            d = x - r
            return d + (np.roll(d, -1) - np.roll(d, 1)) / 8 * (1 if n > 1 else 0) + d ** 3 / 2

        def J(x):
            d = x - r
            M = np.diag(np.ones(n, dtype=dt) + 1.5 * d ** 2)
            if n > 1:
                for i in range(n):
                    M[i, (i + 1) % n] += 1 / 8
                    M[i, (i - 1) % n] -= 1 / 8
            return M
    elif kind == "double":
        def F(x):
            return (x - r) ** 2

        def J(x):
            return np.diag(2 * (x - r))
    elif kind == "exp":
        def F(x):
            return np.exp(x) - 2 + np.roll(x, -1) / 10

        def J(x):
            M = np.diag(np.exp(x))
            for i in range(n):
                M[i, (i + 1) % n] += 0.1
            return M
    elif kind == "permuted":
        def F(x):
            return np.stack([x[1] ** 3 + x[1] - 2 + x[0] ** 2 / 10, x[0] - x[1] ** 2])

        def J(x):
            return np.array([[x[0] / 5, 3 * x[1] ** 2 + 1], [1.0, -2 * x[1]]], dtype=dt)
    elif kind == "noroot":
        def F(x):
            return x ** 2 + 1

        def J(x):
            return np.diag(2 * x)
    elif kind == "quadm1":
        def F(x):
            return x ** 2 - 1

        def J(x):
            return np.diag(2 * x)
    else:
        def F(x):
            out = x[0] - x
            out = np.array(out, dtype=dt)
            out[0] = np.sum(x ** 2) + 1
            return out

        def J(x):
            M = -np.eye(n, dtype=dt)
            M[:, 0] += 1
            M[0, :] = 2 * x
            return M
    if cell["guess"] == "zeroDiagonal":
        x0 = np.zeros(n, dtype=dt)
    elif cell["guess"] == "nearSingular":
        x0 = np.asarray([1e-6 * (1.0 + 0.25 * i) for i in range(n)], dtype=dt)
    elif cell["guess"] == "good" and kind == "quadm1":
        x0 = np.full(n, 0.8, dtype=dt)
    elif cell["guess"] == "good":
        x0 = r + np.asarray(0.1, dtype=dt) if kind != "exp" else np.full(n, 0.5, dtype=dt)
    elif cell["guess"] == "bad":
        x0 = np.asarray([3.0 + 0.5 * i for i in range(n)], dtype=dt) if kind != "exp" else np.full(n, 30.0, dtype=dt) + np.arange(n, dtype=dt) * 0.1
    else:
        x0 = np.zeros(n, dtype=dt) if kind == "noroot" else r.copy() + np.asarray(0.0, dtype=dt)
    return F, J, x0


def cell_job(cell):
    from desolver.utilities import optimizer as opt
    dt = np.dtype(cell["dtype"])
    n = cell["n"]
    F, J, x0 = build(cell, dt)
    shape = {"vector": (n,), "column": (n, 1), "matrix": (2, n // 2), "matrixFlatResidual": (2, n // 2)}[cell["shape"]]
    flat_res = cell["shape"] == "matrixFlatResidual"
    tol = 1e-10 if cell["dtype"] == "float64" else 1e-14
    calls = [0]

    def f(x):
        calls[0] += 1
        if calls[0] > 200000:
            raise traced.BudgetExceeded("budget")
        out_ = F(np.reshape(x, (n,)))
        return np.reshape(out_, (n,)) if flat_res else np.reshape(out_, np.shape(x))

    def jac(x):
        return J(np.reshape(x, (n,)))
    out = dict(cell)
    out.update(success=False, resUnits=0, shapeOk=True, finite=True)
    try:
        g = np.reshape(x0, shape).astype(dt)
        jarg = jac if cell["jac"] == "user" else None
        if cell["solver"] == "newtontrustregion":
            x, info = opt.newtontrustregion(f, g, jac=jarg, tol=tol)
        elif cell["solver"] == "hybrj":
            x, info = opt.hybrj(f, g, jarg, tol=tol)
        else:
            x, info = opt.nonlinear_roots(f, g, jac=jarg, tol=tol)
        success = bool(info[0])
        x = np.asarray(x)
        out["outcome"] = "returned"
        out["success"] = success
        out["shapeOk"] = bool(tuple(np.shape(x)) == tuple(shape))
        out["finite"] = bool(np.all(np.isfinite(x)))
        if out["finite"]:
            res = float(np.linalg.norm(np.asarray(F(np.reshape(x, (n,))), dtype=np.longdouble)))
            out["resUnits"] = int(min(num.CAP, math.ceil(res / (tol * math.sqrt(n))))) if np.isfinite(res) else num.CAP
        else:
            out["resUnits"] = num.CAP
    except traced.BudgetExceeded:
        out["outcome"] = "budget"
    except (np.linalg.LinAlgError, ValueError, ZeroDivisionError, FloatingPointError, OverflowError) as e:
        out["outcome"] = "raised"
        out["error"] = type(e).__name__
    except Exception as e:      # noqa
        out["outcome"] = "error:" + type(e).__name__
        out["error"] = str(e)[:100]
    return out


def check(run, replay=None):
    thorough = run.tier == "thorough"
    run.rule = ("cells = lattice generated by TLC: system kind (4 with a root incl. singular Jacobian at the root, 2 without) x n in {1,2,3,5,8,12} x "
                "shape (vector, column, matrix) x solver (newtontrustregion, hybrj, nonlinear_roots) x dtype (float64 -> MINPACK, longdouble -> dogleg) x "
                "Jacobian (user, finite differences) x guess (good, bad, singular, next to a singular Jacobian); non-trivial = cell that reports success or has no root; distinct by cell")
    gen = run.generate("Systems", workers=2)
    cells = gen["cells"]
    if not thorough:
        cells = [c for k, c in enumerate(sorted(cells, key=lambda c: str(sorted(c.items())))) if (k + run.seed) % 3 == 0 or not c["hasRoot"] or c["shape"].startswith("matrix") or c["kind"] == "permuted"]
    if replay and isinstance(replay.get("scenario"), dict) and "cell" in replay["scenario"]:
        cells = [replay["scenario"]["cell"]]
    obs = core.pool_map(cell_job, cells)
    outcomes = {}
    for k, o in enumerate(obs):
        o["id"] = k
        run.evaluations += 1
        outcomes[o["outcome"]] = outcomes.get(o["outcome"], 0) + 1
        if o.get("success") or not o["hasRoot"]:
            run.nontrivial.add(tuple(sorted((kk, str(v)) for kk, v in cells[k].items())))
    run.notes["outcomes"] = outcomes
    run.notes["successes"] = sum(1 for o in obs if o.get("success"))
    run.sample({"cell": obs[0]})
    keys = ("id", "outcome", "success", "resUnits", "shapeOk", "finite", "hasRoot")
    v = run.judge("SolverJudge", {"cases": [{k: o[k] for k in keys} for o in obs]}, name="C15_solvers", shards=4, shard_key="cases")
    run.traces += len(obs)
    for b in v["bad"]:
        o = obs[b["id"]]
        c = cells[b["id"]]
        run.violation(b["clause"], "%s n=%d %s %s %s jac=%s guess=%s" % (c["kind"], c["n"], c["shape"], c["solver"], c["dtype"], c["jac"], c["guess"]),
                      {k: o.get(k) for k in ("outcome", "success", "resUnits", "shapeOk", "finite", "error")}, replay={"cell": c})
    run.assumptions += ["tolerances: 1e-10 (float64), 1e-14 (longdouble); 'modest multiple' = ModestK = 10 x tol x sqrt(n)",
                        "a solver that raises LinAlgError / ValueError instead of returning claims no success"]
