"""C08 -- no event crossing is missed.

Design level : OdeSystem.tla: every root inside an accepted step of an events-on call is recorded exactly once, whatever the
               direction, on boundaries and in interiors (EventsAreRoots / NoEventTwice / TerminalStop on the same model).
Conformance  : the antecedent of the property is observed directly: the sensor evaluates every event function at every pair of
               consecutive recorded rows; EventJudge.tla requires, for every strict sign change with a direction the function
               requests, at least one recorded event of that function inside that step (C08.NoCrossingMissed), and for time
               events that every root the scenario defines inside the integrated range is reported
               (C08.GroundTruthCrossingReported).  Scales over 12 decades, both directions, dense on/off, 1..6 events.
"""
from vf.props import C07

LEVEL = "model_checking"
PREFIX = ("C08.",)


def check(run, replay=None):
    run.rule = ("same event lattice as C07; every (accepted step, event function) pair is one evaluation of the property's antecedent; "
                "non-trivial = pair with a strict sign change; distinct by (method, span, mix)")
    C07.run_events(run, replay, PREFIX, "C08")
    run.assumptions += ["direction is read along the run, on backward runs too (see C07); with direction 0 every strict sign change is demanded"]
