"""C01 -- every integrator attains its declared order of accuracy.

Design level : RootedTrees.tla enumerates all rooted trees up to the order needed (canonical table built order by order; TLC checks
               the tree counts 1,1,2,4,9,20,48,115,286,719, canonicity, gamma of the extreme trees) and Richardson.tla decides the
               order of every entry of the Aitken-Neville tableau for base orders 1..8 and 2..5 levels (exact arithmetic modulo two
               primes): NeverLowerThanBase, StrictlyHigherWithThreeLevels, OrderFormula; the deviations "divisorIgnoresBaseOrder" and
               "divisorUsesRow" violate them.
Conformance  : the tree table is handed to the actuator, which runs ONE REAL STEP of every shipped method (and of Richardson
               wrappers with 2..5 levels) on the tree system y_tau' = prod y_children: by the B-series theorem component tau of the
               step equals h^|tau| sum b_i Phi_i(tau), so the order condition of tau holds iff it equals the table's h^|tau|/gamma.
               OrderJudge.tla decides every method from the observed misses (exact rational arithmetic in the sensor) and checks
               that every tree of every order was exercised.  Splitting methods run on the alternating bicoloured tree system
               (a separable system, default kick mask).  The embedded weights must integrate the order-1 tree.
"""
from fractions import Fraction
import numpy as np
from vf import core, num, trees

LEVEL = "model_checking"


def _method_jobs(tier):
    import desolver as de
    thorough = tier == "thorough"
    jobs = []
    for cls in de.integrators.explicit_methods() + de.integrators.implicit_methods():
        name = cls.__name__
        p = int(cls.__order__)
        split = issubclass(cls, de.integrators.ExplicitSymplecticIntegrator)
        ti = np.asarray(cls.tableau_intermediate)
        implicit = (not split) and not all((ti[c, c + 1:] == 0.0).all() for c in range(ti.shape[0]))
        cap_all = 10 if thorough else 8
        if split:
            cap = min(p, 7 if thorough else 6)
        elif name == "RadauIIA19":
            cap = 6 if thorough else 4
        elif implicit:
            cap = min(p, 8 if thorough else 6)
        else:
            cap = min(p, cap_all)
        dts = ["float64"] if implicit else ["float64", "longdouble"]
        hs = [0.5, -0.5] if implicit else [1.0, -0.5]
        if thorough and not implicit:
            hs.append(0.25)
        for dtn in dts:
            for h in hs:
                jobs.append({"name": name, "kind": "method", "p": p, "L": 0, "cap": cap, "dtype": dtn, "h": h, "split": split, "implicit": implicit})
        if not implicit:
            # a step taken by an integrator object that has just taken (and discarded) a trial step of another size from the same point
            jobs.append({"name": name, "kind": "method", "p": p, "L": 0, "cap": cap, "dtype": "float64", "h": 0.5, "split": split, "implicit": False,
                         "prestep": 0.875})
    bases = [("EulerSolver", 1), ("MidpointSolver", 2), ("RK4Solver", 4), ("RK45CKSolver", 5), ("HeunsSolver", 2)]
    if thorough:
        bases += [("RK5Solver", 5), ("RalstonsSolver", 2), ("DOPRI45", 5)]
    for bname, p in bases:
        for L in (2, 3, 4, 5):
            if p + L - 2 > (10 if thorough else 8) and L > 3:
                continue
            for h in ((1.0, -0.5) if bname != "BackwardEuler" else (0.5, -0.5)):
                jobs.append({"name": bname, "kind": "rich", "p": p, "L": L, "cap": min(10 if thorough else 8, p + L - 1), "dtype": "float64", "h": h,
                             "split": False, "implicit": bname == "BackwardEuler"})
    return jobs


TABLES = {}


def _run_job(job):
    import desolver as de
    tab = TABLES["trees"]
    sub = [t for t in tab if t["ord"] <= job["cap"]]
    ts = trees.TreeSystem(sub, job["dtype"], bicolour=job["split"])
    cls = getattr(de.integrators, job["name"])
    if job["kind"] == "rich":
        cls = de.integrators.generate_richardson_integrator(cls, richardson_iter=job["L"])
    tol = 1e-13 if job["implicit"] else None
    e64 = num.eps_of("float64")
    out = dict(job)
    out["copies"] = 2 if job["split"] else 1
    try:
        y1, est, hit, ok = trees.one_step(cls, ts, job["h"], tol, prestep=job.get("prestep"))
    except Exception as e:      # noqa
        out.update(observed=False, ords=[t["ord"] for t in sub] * out["copies"], units=[0] * (len(sub) * out["copies"]), emb=-1, hit=False,
                   error="%s: %s" % (type(e).__name__, str(e)[:120]))
        return out
    units = []
    ords = []
    for i in range(ts.dim):
        o = sub[i % len(sub)]["ord"]
        scale = abs(Fraction(job["h"])) ** o + (Fraction(tol) / e64 if tol else 0)
        units.append(num.units(y1[i], ts.exact(i, job["h"]), scale, e64))
        ords.append(o)
    emb = -1
    if est is not None and job["kind"] == "method":
        emb = num.units(np.asarray(est).reshape(-1)[0], Fraction(0), Fraction(1) + (Fraction(tol) / e64 if tol else 0), e64)
    out.update(observed=bool(ok) or not job["implicit"], ords=ords, units=units, emb=int(emb), hit=bool(hit))
    return out


def check(run, replay=None):
    thorough = run.tier == "thorough"
    run.rule = ("one real step of every shipped method (32) x dtype x step size on the tree system of all rooted trees up to min(declared order, cap), "
                "and of Richardson wrappers of 5-9 base methods with 2..5 levels; an evaluation is one (method, tree) order condition; non-trivial = "
                "tree of order >= 3; distinct by (method, levels, dtype, h, tree)")
    cfg = "RootedTrees_10" if thorough else "RootedTrees_8"
    tab = run.generate("RootedTrees", cfg)
    TABLES["trees"] = tab["trees"]
    run.mc("RichardsonMC", "Richardson_ok", workers=4)
    if thorough:
        core.model_check("RichardsonMC", "Richardson_devIgnores", expect_violation="StrictlyHigherWithThreeLevels", workers=2)
        core.model_check("RichardsonMC", "Richardson_devRow", expect_violation="StrictlyHigherWithThreeLevels", workers=2)
    if replay and isinstance(replay.get("scenario"), dict) and "job" in replay["scenario"]:
        jobs = [replay["scenario"]["job"]]
    else:
        jobs = _method_jobs(run.tier)
    obs = core.pool_map(_run_job, jobs)
    for k, o in enumerate(obs):
        o["id"] = k
        run.evaluations += len(o["units"])
        for idx, (oo, u) in enumerate(zip(o["ords"], o["units"])):
            if oo >= 3:
                run.nontrivial.add((o["name"], o["L"], o["dtype"], o["h"], idx))
    run.notes["methods"] = len({(o["name"], o["L"]) for o in obs})
    run.notes["worst_units_on_required_trees"] = max([u for o in obs for (oo, u) in zip(o["ords"], o["units"])
                                                      if o["observed"] and oo <= (min(o["p"], o["cap"]) if o["L"] == 0 else min(o["cap"], o["p"]))
                                                      and o["name"] not in ("ABAs5o6HSolver", "BABs9o7HSolver")] + [0])
    run.sample({"case": {k: (v[:12] if isinstance(v, list) else v) for k, v in obs[0].items()}})
    payload = [{k: o[k] for k in ("id", "p", "L", "cap", "copies", "ords", "units", "emb", "hit", "observed")} for o in obs]
    v = run.judge("OrderJudge", {"cases": payload}, name="C01_order", shards=8, shard_key="cases")
    run.traces += len(obs)
    for b in v["bad"]:
        o = obs[b["id"]]
        sig = "%s%s lowest-failing-order=%s" % (o["name"], ("" if o["L"] == 0 else " richardson-levels=%d" % o["L"]), b.get("lowest"))
        run.violation(b["clause"], sig, {"dtype": o["dtype"], "h": o["h"], "declared": o["p"], "cap": o["cap"], "error": o.get("error")},
                      replay={"job": jobs[b["id"]]})
    run.exhaustive = True
    run.assumptions += ["B-series theorem: the order conditions for all rooted trees of order <= p are equivalent to a local error O(h^(p+1)) for every "
                        "smooth right-hand side (this is what makes the finite check cover 'all smooth f, all states, all small h')",
                        "trees are generated up to order %d; methods of higher declared order (RK1412: 14, RK108: 10 in quick, RadauIIA19: 19) are "
                        "checked up to the cap only; 'halving the step divides the global error by 2^p' is not measured" % (10 if thorough else 8),
                        "implicit methods are run in float64 with Newton tolerance 1e-13, h = +-1/2; Richardson wrappers are exercised with explicit "
                        "base methods only (the wrapper hands one tolerance to both the stage solver of an implicit base and its own controller)"]
