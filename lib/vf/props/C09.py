"""C09 -- a terminal event stops the integration exactly at the event.

Design level : OdeSystem.tla: TerminalStop, PiecesAreSteps, SegmentMonotone with roots in step interiors, on step
               boundaries and at the start point, both directions, followed by continuation calls and faults; the
               deviations "keepRolledBackPiece" and "frontInsert" violate PiecesAreSteps (thorough tier self-test).
Conformance  : traces of every family with mixes of terminal / non-terminal time and state events, finite and
               infinite targets, both directions, dense on/off, followed by a continuation; OdeTrace.tla decides
               C09.* including the ground truth the scenario defines (the earliest terminal root along the direction).
"""
from vf import modelreplay, gen, odecore, core

LEVEL = "model_checking"
PREFIX = ("C09.",)


def scenarios(tier, seed):
    thorough = tier == "thorough"
    meths = ["RK4", "RK5", "ABAS5O6H", "RK45CK", "DOPRI45", "BackwardEuler", "CrankNicolson", "RadauIIA5",
             {"rich": "RK4", "levels": 3}, {"rich": "Midpoint", "levels": 2}]
    if thorough:
        meths += ["Euler", "Midpoint", "BABS9O7H", "Symplectic Forward Euler", "AHE", "RK87", "GaussLegendre4", "LobattoIIIC4",
                  "LobattoIIIA4", {"rich": "RK45CK", "levels": 2}, {"rich": "BackwardEuler", "levels": 3}]
    scs = []
    n = 0
    for m in meths:
        for (a, b) in ((0.0, 2.0), (2.0, 0.0), (-5.0, -3.0), (1.0, -1.0)):
            span = b - a
            P = lambda f: a + span * f      # noqa
            mixes = [
                [{"kind": "time", "c": P(0.55), "term": True}],
                [{"kind": "time", "c": P(0.3)}, {"kind": "time", "c": P(0.62), "term": True}, {"kind": "time", "c": P(0.8)}],
                # two roots inside one step, the later one (along the run) terminal, and a non-terminal one just beyond it
                [{"kind": "time", "c": P(0.51)}, {"kind": "time", "c": P(0.53), "term": True}, {"kind": "time", "c": P(0.56)}],
                # two terminal events: only the earlier one along the direction counts
                [{"kind": "time", "c": P(0.7), "term": True}, {"kind": "time", "c": P(0.4), "term": True}, {"kind": "time", "c": P(0.2)}],
                # coincident non-terminal and terminal event
                [{"kind": "time", "c": P(0.45)}, {"kind": "time", "c": P(0.45), "term": True}],
                # terminal event exactly on a step boundary of the fixed-step grid (dt = span/8)
                [{"kind": "time", "c": P(0.5), "term": True}, {"kind": "time", "c": P(0.25)}],
                # scaled event function
                [{"kind": "time", "c": P(0.37), "term": True, "s": 1000.0}, {"kind": "time", "c": P(0.2), "s": 1e-3}],
            ]
            for k, mix in enumerate(mixes):
                n += 1
                if not thorough and (n + seed) % 2:
                    continue
                sc = gen.with_tol(gen.base(m, a, b, abs(span) / 8.0))
                sc["dense"] = bool((n // 2) % 2)
                cont = {"op": "integrate"} if (n % 3 and n % 5) else {"op": "integrate", "t": P(0.9)}
                sc["ops"] = [{"op": "integrate", "events": mix, "cbs": ([{"kind": "noop"}] if n % 4 == 0 else [])}, cont]
                if n % 5 == 0:
                    sc["ops"].append({"op": "integrate", "t": P(0.95), "events": [{"kind": "time", "c": P(0.93), "term": True}]})
                scs.append(sc)
    # an earlier call FAILED (a fault in the right-hand side, a keyboard interrupt): a later call that a terminal event stops reports
    # termination by event, as a success - not the old failure
    for m in ["RK4", "RK45CK", "ABAS5O6H", "RadauIIA5"] + (["DOPRI45", "BackwardEuler", "RK87"] if thorough else []):
        for (a, b) in ((0.0, 2.0), (2.0, 0.0)):
            for exc in ("ValueError", "KeyboardInterrupt"):
                span = b - a
                sc = gen.with_tol(gen.base(m, a, b, abs(span) / 8.0))
                sc["dense"] = bool(len(scs) % 2)
                sc["ops"] = [{"op": "integrate", "t": a + span * 0.4, "fault": 7, "exc": exc},
                             {"op": "integrate", "events": [{"kind": "time", "c": a + span * 0.3}, {"kind": "time", "c": a + span * 0.7, "term": True}]},
                             {"op": "integrate"}]
                scs.append(sc)
    # infinite targets
    for m in ["RK4", "RK45CK", "ABAS5O6H", "BackwardEuler"] + (["DOPRI45", "RadauIIA5"] if thorough else []):
        for (a, inf, c) in ((0.0, float("inf"), 1.3), (1.0, float("-inf"), -0.7), (-4.0, float("inf"), -2.5)):
            sc = gen.with_tol(gen.base(m, a, a + (1.0 if inf > 0 else -1.0), 0.25))
            sc["ops"] = [{"op": "integrate", "t": inf, "events": [{"kind": "time", "c": c, "term": True}, {"kind": "time", "c": (a + c) / 2.0}]},
                         {"op": "integrate", "t": c + (0.5 if inf > 0 else -0.5)}]
            sc["dense"] = True
            scs.append(sc)
    # state events (no ground truth from the scenario; protocol clauses only)
    for m in ["RK4", "RK45CK", "DOPRI45"] + (["ABAS5O6H", "RadauIIA5"] if thorough else []):
        for (a, b) in ((0.0, 3.0), (3.0, 0.0)):
            sc = gen.with_tol(gen.base(m, a, b, 0.2))
            sc["dense"] = True
            sc["ops"] = [{"op": "integrate", "events": [{"kind": "state", "c": 0.3, "comp": 0, "term": True}, {"kind": "state", "c": 0.8, "comp": 0}]},
                         {"op": "integrate"}]
            scs.append(sc)
    return gen.number(scs, "C09_")


def check(run, replay=None):
    run.rule = ("scenarios = method family x span (both directions, negative times) x event mix (terminal alone, between "
                "non-terminal ones, two roots in one step, two terminal events, coincident events, boundary root, scaled) x dense "
                "x continuation, plus infinite targets and state events; non-trivial = the terminal event fired and a continuation ran; "
                "distinct by (method, span, mix)")
    if replay and isinstance(replay.get("scenario"), dict) and "modelreplay" in replay["scenario"]:
        modelreplay.phase(run, [], "C09", ('Events', 'Rows', 'Pieces', 'Status', 'Raised', 'RunTerminates', 'RequestedStep', 'IntegratorCalls'), replay=replay["scenario"]["modelreplay"])
        return
    if replay:
        scs = odecore.replay_scenarios(replay)
    else:
        run.mc("OdeSystemMC", "OdeSystem_events_q")
        run.mc("OdeSystemMC", "OdeSystem_indefinite")      # targets +-Infinity: a call towards them returns only because a terminal event stopped it
        if run.tier == "thorough":
            run.mc("OdeSystemMC", "OdeSystem_events")
            for dev, inv in (("KeepRolledBackPiece", "PiecesAreSteps"), ("FrontInsert", "PiecesAreSteps")):
                core.model_check("OdeSystemMC", "OdeSystem_dev" + dev, expect_violation=inv)
        scs = scenarios(run.tier, run.seed)
    traces = odecore.run_traces(scs)
    for sc, tr in zip(scs, traces):
        run.evaluations += 1
        if any(e["e"] == "HandleEventsRet" and e["terminate"] for e in tr["events"]):
            run.nontrivial.add((str(sc["method"]), sc["t0"], sc["tf"], str(sc["ops"][0].get("events"))))
    run.sample({"scenario": scs[0]})
    odecore.judge_traces(run, scs, traces, PREFIX)
    if not replay:
        # spec -> code: behaviours of the design model with (terminal and non-terminal) events replayed on the real code; events, rows, pieces and status must be the model's at every API return
        modelreplay.phase(run, ['OdeSystemSim_fixed_nofault', 'OdeSystemSim_adaptive_nofault'], "C09", ('Events', 'Rows', 'Pieces', 'Status', 'Raised', 'RunTerminates', 'RequestedStep', 'IntegratorCalls'), keep=modelreplay.has_events)
    run.assumptions += ["ground truth is available for time events only (roots defined by the scenario); state events are checked "
                        "on the protocol clauses", "continuation is run without re-arming the event that stopped the run"]
