"""C13 -- results do not depend on call history; reset restores the initial state.

Design level : OdeSystem.tla: ResetRestores for every reachable prior state (runs, events, failures), and
               CallAtTargetChangesNothing; the deviation "resetKeepsEvents" violates ResetRestores (thorough self-test).
Conformance  : (T) traces of operation sequences drawn from {integrate(), integrate(t), set dt/rtol/atol/method/tf,
               set_kick_vars, integrate with events, faulting integrate, reset} validated by OdeTrace.tla (C13.*);
               (twins) after every history ending in reset() the remaining operations are also executed on a freshly
               constructed system with the same settings and TwinJudge.tla requires the two observation sequences
               (rows, mid-step dense values, events, nfev) to be identical bit for bit; a span split at a grid point
               must reproduce the unsplit run bit for bit (fixed-step) or to tolerance (adaptive).
"""
import random
from vf import gen, odecore, core, scen, twins

LEVEL = "model_checking"
PREFIX = ("C13.",)


def histories(rnd, a, b, m):
    """A few operation sequences H that are followed by reset()."""
    span = b - a
    P = lambda f: a + span * f      # noqa
    fam = scen.family_of(m)
    other = "RK5" if fam != "fixed" else "RK45CK"
    pool = [
        [{"op": "integrate"}],
        [{"op": "integrate", "t": P(0.4)}, {"op": "integrate", "t": P(0.4)}],
        [{"op": "integrate", "t": P(0.3)}, {"op": "set", "what": "dt", "v": abs(span) / 3.0}, {"op": "integrate"}],
        [{"op": "integrate", "events": [{"kind": "time", "c": P(0.35)}, {"kind": "time", "c": P(0.6), "term": True}]}],
        [{"op": "integrate", "fault": 7}],
        [{"op": "integrate", "t": P(0.5)}, {"op": "integrate", "fault": 3}, {"op": "integrate"}],
        [{"op": "set", "what": "rtol", "v": 1e-5}, {"op": "set", "what": "atol", "v": 1e-7}, {"op": "integrate"}],
        [{"op": "integrate", "t": P(0.5)}, {"op": "set", "what": "method", "v": other}, {"op": "integrate"}],
        [{"op": "set", "what": "tf", "v": P(1.5)}, {"op": "integrate"}],
        [{"op": "integrate", "t": P(0.7)}, {"op": "integrate", "t": P(0.2)}],
    ]
    if fam == "split":
        pool.append([{"op": "integrate", "t": P(0.5)}, {"op": "set", "what": "kick", "v": [True, False]}, {"op": "integrate"}])
    return pool


def settings_of(h):
    return [op for op in h if op["op"] == "set" and op["what"] != "dt"]


def build(tier, seed):
    rnd = random.Random(seed)
    thorough = tier == "thorough"
    meths = ["RK4", "DOPRI45", "RK45CK", "ABAS5O6H", "BackwardEuler", "CrankNicolson", "RadauIIA5"]
    if thorough:
        meths += ["Euler", "RK5", "AHE", "BABS9O7H", "GaussLegendre4", "LobattoIIIC4", "ImplicitMidpoint", {"rich": "RK4", "levels": 3}]
    trace_scs, jobs = [], []
    n = 0
    for m in meths:
        for (a, b) in ((0.0, 2.0), (2.0, 0.0), (-5.0, -3.0), (-2.0, 0.0)):
            span = b - a
            suffix = [{"op": "integrate", "t": a + span * 0.625}, {"op": "integrate"}]
            for h in histories(rnd, a, b, m):
                n += 1
                if not thorough and (n + seed) % 3:
                    continue
                for prob, y0 in (("osc", [1.0, 0.0]), ("tdepsys", [1.0, 0.5])):
                    if prob == "tdepsys" and (n % 2) and not thorough:
                        continue
                    dense = bool(n % 2)
                    A = gen.with_tol(gen.base(m, a, b, abs(span) / 8.0, dense=dense, problem=prob, y0=y0))
                    A["ops"] = h + [{"op": "reset"}] + suffix
                    B = dict(A)
                    B["ops"] = settings_of(h) + suffix
                    if prob == "osc":
                        trace_scs.append(A)
                    jobs.append(("reset", A, B))
    # Richardson wrappers of splitting methods change their own step (doubling/halving inside the wrapper), in either direction
    for base_m in ["ABAS5O6H"] + (["BABS9O7H"] if thorough else []):
        for (a, b, d0) in ((0.0, 4.0, 0.001), (-5.0, -3.0, 0.002), (4.0, 0.0, 0.001)):
            A = gen.base({"rich": base_m, "levels": 2}, a, b, d0, rtol=1e-6, atol=1e-6, dense=False)
            A["ops"] = [{"op": "integrate", "t": a + (b - a) * 0.625}, {"op": "integrate"}, {"op": "reset"}, {"op": "integrate", "t": a + (b - a) * 0.625}, {"op": "integrate"}]
            B = dict(A)
            B["ops"] = [{"op": "integrate", "t": a + (b - a) * 0.625}, {"op": "integrate"}]
            jobs.append(("reset", A, B))
    # a run whose last increments OVERFLOWED (a growing solution, fixed step, no error raised), then reset() and a short, finite run: nothing of
    # the overflow - e.g. an inf left in a work buffer that is cleared by multiplying with zero - may reach the second run
    for m in ["Symplectic Forward Euler", "ABAS5O6H", "RK4"] + (["BABS9O7H", "Midpoint"] if thorough else []):      # (explicit and splitting methods only: an implicit stage solve fails once the state overflows)
        for sg in (1.0, -1.0):
            A = gen.base(m, 0.0, sg * 2000.0, 0.5, problem="grow", y0=[1.0, 0.5], dense=False)
            A["budget"] = 2000000
            A["ops"] = [{"op": "integrate"}, {"op": "reset"}, {"op": "integrate", "t": sg * 5.0}]
            B = dict(A)
            B["ops"] = [{"op": "integrate", "t": sg * 5.0}]
            jobs.append(("reset", A, B))
    # split invariance
    for m in (["RK4", "RK5", "ABAS5O6H", "BackwardEuler", "RK45CK", "DOPRI45"] + (["Euler", "CrankNicolson", "RadauIIA5", "BABS9O7H"] if thorough else [])):
        fam = scen.family_of(m)
        for (a, b) in ((0.0, 2.0), (2.0, 0.0), (-3.0, -1.0)):
            span = b - a
            whole = gen.with_tol(gen.base(m, a, b, abs(span) / 8.0))
            for f in (0.25, 0.5, 0.875):
                part = dict(whole)
                part["ops"] = [{"op": "integrate", "t": a + span * f}, {"op": "integrate"}]
                jobs.append(("split-exact" if fam in ("fixed", "split", "fixedimp") else "split-tol", whole, part))
    gen.number(trace_scs, "C13_")
    return trace_scs, jobs


def _run_job(job):
    kind, A, B = job
    ra, rb = scen.run_plain(A), scen.run_plain(B)
    ra.pop("system"), rb.pop("system")
    return ra, rb


def check(run, replay=None):
    run.rule = ("histories H over {integrate(), integrate(t) incl. repeated and reversed targets, set dt/rtol/atol/method/tf, set_kick_vars, "
                "integrate with events, faulting integrate} followed by reset() and a two-call suffix; each is traced (monitor) and re-run "
                "against a freshly constructed twin (bit-for-bit); splits of the span at grid points; non-trivial = history that recorded "
                ">= 2 steps before reset; distinct by (method, span, history, problem)")
    if replay:
        sc = replay.get("scenario")
        if isinstance(sc, dict) and "job" in sc:
            trace_scs, jobs = [], [tuple(sc["job"])]
        else:
            trace_scs, jobs = odecore.replay_scenarios(replay), []
    else:
        run.mc("OdeSystemMC", "OdeSystem_events_q")
        run.mc("OdeSystemMC", "OdeSystem_fixed")
        if run.tier == "thorough":
            core.model_check("OdeSystemMC", "OdeSystem_devResetKeepsEvents", expect_violation="ResetRestores")
        trace_scs, jobs = build(run.tier, run.seed)
    if trace_scs:
        traces = odecore.run_traces(trace_scs)
        for sc, tr in zip(trace_scs, traces):
            run.evaluations += 1
            run.nontrivial.add(("trace", str(sc["method"]), sc["t0"], sc["tf"], str([o["op"] + str(o.get("what", "")) for o in sc["ops"]])))
        run.sample({"scenario": trace_scs[0]})
        odecore.judge_traces(run, trace_scs, traces, PREFIX)
    if jobs:
        res = core.pool_map(_run_job, jobs)
        cases = []
        for k, (job, (ra, rb)) in enumerate(zip(jobs, res)):
            kind, A, B = job
            if kind == "split-tol":
                c = twins.case(k, "C13.SplitInvariance", "tolerance", ra, rb, rtol=A.get("rtol"), atol=A.get("atol"))
            else:
                c = twins.case(k, "C13.ResetThenRunEqualsFreshRun" if kind == "reset" else "C13.SplitInvariance", "exact", ra, rb, seq="rows")
            cases.append(c)
            run.evaluations += 1
            if len(ra["t"]) >= 3:
                run.nontrivial.add((kind, str(A["method"]), A["t0"], A["tf"], str([o["op"] + str(o.get("what", "")) for o in A["ops"]]), A.get("problem")))
        run.sample({"twin_case": {k: (v if not isinstance(v, list) else v[:10]) for k, v in cases[0].items()}})
        v = run.judge("TwinJudge", {"cases": cases}, name="C13_twins")
        run.traces += len(cases)
        for bad in v["bad"]:
            kind, A, B = jobs[bad["id"]]
            run.violation(bad["clause"], "%s %s" % (kind, odecore.describe(A)), {"rowsA": len(cases[bad["id"]]["seqA"]), "rowsB": len(cases[bad["id"]]["seqB"]),
                                                                                   "tolUnits": cases[bad["id"]]["tolUnits"]}, replay={"job": [kind, A, B]})
    run.assumptions += ["a fresh twin is built with the constructor arguments of the original and the tolerance/method/tf/kick settings the "
                        "history applied (dt assignments are undone by reset by design)",
                        "njev is not compared across reset()"]
