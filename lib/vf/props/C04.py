"""C04 -- fixed-step methods take the requested step wherever the time axis sits.

Design level : OdeSystem.tla: FixedStepsEqualDt, FixedDtKeptBetweenSteps, NoOvershootOnCommit on every placement of
               (t0, tf) and every direction; the deviations "absFinalClamp", "dirFromSystemSpan", "clampAdoptsDt" are
               shown by TLC to violate them (spec self-test, thorough tier).
Conformance  : (T) traces of every fixed-step family (explicit, splitting, implicit without estimator) on every
               placement, validated by OdeTrace.tla (clauses C04.*); (twins) each scenario is re-run shifted by a
               dyadic constant and as the time-reflected problem integrated backward; TwinJudge.tla compares the
               step sequences and the final states (rounding level for fixed-step, tolerance level for adaptive).
"""
import random
import numpy as np
from vf import integreplay, modelreplay, gen, odecore, core, scen, twins, num

LEVEL = "model_checking"
PREFIX = ("C04.",)

FIXED_ALL = gen.FIXED + gen.SPLIT + gen.FIXIMP


def scenarios(tier, seed):
    thorough = tier == "thorough"
    methods = FIXED_ALL if thorough else ["RK4", "Euler", "Midpoint", "RK5", "ABAS5O6H", "BABS9O7H", "Symplectic Forward Euler",
                                          "BackwardEuler", "CrankNicolson", "GaussLegendre4", "LobattoIIIA4", "RadauIIA3", "LobattoIIIC2"]
    scs = []
    for m in methods:
        for (a, b) in gen.SPANS:
            span = b - a
            for k, div in enumerate((8.0, 3.0, 1.0)):
                sc = gen.base(m, a, b, abs(span) / div)
                kind = (len(scs) + seed) % 4
                if kind == 0:
                    sc["ops"] = [{"op": "integrate"}]
                elif kind == 1:
                    sc["ops"] = [{"op": "integrate", "t": a + span * 0.4}, {"op": "integrate"}]
                elif kind == 2:
                    sc["ops"] = [{"op": "integrate"}, {"op": "integrate", "t": a + span * 0.3}]
                else:
                    sc["ops"] = [{"op": "integrate", "t": a + span * 0.55}, {"op": "integrate", "t": a - span * 0.2}, {"op": "integrate", "t": b}]
                sc["dense"] = (len(scs) % 3 == 0)
                scs.append(sc)
    # a terminal event stops the run inside a full step; the continuation goes on with the requested step (the shorter steps taken to land on
    # the event are not carried over)
    for m in ["RK4", "Midpoint", "ABAS5O6H", "ImplicitMidpoint", "BackwardEuler"] + (["Euler", "RK5", "BABS9O7H", "GaussLegendre4", "CrankNicolson"] if thorough else []):
        for (a, b) in ((0.0, 1.0), (1.0, -1.0), (-5.0, -3.0), (1000.0, 1002.0)):
            # (div 8: the event lies in a full step; div 10 / 2.5 with the event at 0.97 / 0.9: in the CLAMPED LAST step of a call that
            #  stops short of the configured end - finding f36)
            for div, frac, stop in ((8.0, 0.4, None), (10.0, 0.77, None), (10.0, 0.97, 0.985), (2.5, 0.9, 0.95)):
                sc = gen.base(m, a, b, abs(b - a) / div)
                first = {"op": "integrate", "events": [{"kind": "time", "c": a + (b - a) * frac, "term": True}]}
                if stop is not None:
                    first["t"] = a + (b - a) * stop
                sc["ops"] = [first, {"op": "integrate"}]
                sc["dense"] = (len(scs) % 2 == 0)
                scs.append(sc)
    # a stiff-ish nonlinear problem on which the stage equations of implicit methods may fail at the requested step
    for m in ["LobattoIIIC2", "BackwardEuler", "CrankNicolson", "RadauIIA3"] + (gen.FIXIMP if thorough else []):
        for (a, b) in ((0.0, 1.0), (1.0, 0.0), (-2.0, -1.0)):
            sc = gen.base(m, a, b, 0.25, problem="stiffroot", y0=[1.0])
            sc["mayFail"] = True
            scs.append(sc)
    # adaptive families must still obey the clamp clauses
    for m in ["RK45CK", "DOPRI45", "RadauIIA5"]:
        for (a, b) in ((-5.0, -3.0), (1.0, -1.0)):
            scs.append(gen.with_tol(gen.base(m, a, b, abs(b - a) / 3.0)))
    return gen.number(scs, "C04_")


def twin_cases(tier, seed):
    thorough = tier == "thorough"
    fixed = ["RK4", "Midpoint", "RK5", "ABAS5O6H", "Symplectic Forward Euler", "BackwardEuler", "GaussLegendre4", "CrankNicolson"]
    if thorough:
        fixed = FIXED_ALL
    adaptive = ["RK45CK", "DOPRI45", "RadauIIA5"] + (["AHE", "RK87", "LobattoIIIC4", {"rich": "RK4", "levels": 3}] if thorough else [])
    jobs = []
    for m in fixed + adaptive:
        fam = scen.family_of(m)
        is_fixed = fam in ("fixed", "split", "fixedimp")
        for (a, b, h) in ((0.0, 1.0, 0.125), (1.0, 0.0, 0.25), (-2.0, -0.75, 0.25), (0.5, -1.0, 0.125)):
            for prob, y0 in (("osc", [1.0, 0.0]), ("pend", [1.0, 0.25])):
                if not thorough and prob == "pend" and (len(jobs) + seed) % 2:
                    continue
                base = gen.with_tol(gen.base(m, a, b, h, problem=prob, y0=y0))
                for c in ((8.0, -16.0, 0.5) if thorough else (8.0, -16.0)):
                    tw = dict(base)
                    tw.update(t0=a + c, tf=b + c)
                    jobs.append(("shift", base, tw, is_fixed))
                tw = dict(base)
                tw.update(t0=-a, tf=-b, reflect=True)
                jobs.append(("reflect", base, tw, is_fixed))
    return jobs


def _run_twin(job):
    kind, a, b, is_fixed = job
    ra, rb = scen.run_plain(a), scen.run_plain(b)
    ra.pop("system"), rb.pop("system")
    return ra, rb


def _switch_job(job):
    """spec/AdaptSwitch.tla on a real integrator object: the read-back of is_adaptive after every assignment, then one call with a step far too
    long for the tolerances (pendulum, omega = 10, h = 4): does the object take the step it is given?"""
    import desolver as de
    name, hist = job
    cls = getattr(de.integrators, name)
    out = {"name": name, "hist": [bool(b) for b in hist], "read": [], "tookRequested": True, "ran": False,
           "hasEstimator": bool(hasattr(cls, "tableau_final") and np.asarray(cls.tableau_final).shape[0] == 2), "explicit": True, "mustShorten": False}
    try:
        integ = cls((2,), dtype=np.float64, rtol=1e-8, atol=1e-8)
        out["explicit"] = not bool(integ.is_implicit)
        out["read"].append(bool(integ.is_adaptive))
        for b in hist:
            integ.is_adaptive = bool(b)
            out["read"].append(bool(integ.is_adaptive))
        out["mustShorten"] = bool(out["explicit"] and out["hasEstimator"])
        h = np.float64(4.0)
        try:
            r = integ(de.DiffRHS(lambda t, y: np.array([y[1], -100.0 * np.sin(y[0])])), np.float64(0.0), np.array([1.0, 0.0]), {}, h)
            out["tookRequested"] = bool(num.frac(r[1][0]) == num.frac(h))
        except de.exception_types.FailedToMeetTolerances:
            out["tookRequested"] = False
        out["ran"] = True
    except Exception as e:      # noqa
        out["error"] = "%s: %s" % (type(e).__name__, str(e)[:120])
    return out


def _switch_phase(run):
    import desolver as de
    gen = run.generate("AdaptSwitch")
    if run.tier == "thorough":
        core.model_check("AdaptSwitch", "AdaptSwitch_devInverted", expect_violation="SwitchingOffSwitchesOff")
    names = [c.__name__ for c in de.integrators.explicit_methods() + de.integrators.implicit_methods()]
    jobs = [(n, h) for n in names for h in gen["histories"]]
    obs = core.pool_map(_switch_job, jobs, chunksize=16)
    crashed = [o for o in obs if not o["ran"]]
    if crashed:
        raise core.MachineryError("adaptivity switch job failed: %s %s" % (crashed[0]["name"], crashed[0].get("error")))
    for k, o in enumerate(obs):
        o["id"] = k
        run.evaluations += 1
        if o["hist"]:
            run.nontrivial.add(("switch", o["name"], str(o["hist"])))
    v = run.judge("AdaptSwitch", {"cases": [{k: o[k] for k in ("id", "hasEstimator", "explicit", "hist", "read", "tookRequested", "mustShorten")} for o in obs]}, name="C04_switch")
    run.traces += len(obs)
    for b in v["bad"]:
        o = obs[b["id"]]
        if b["clause"].startswith("C04."):
            run.violation(b["clause"], "switch %s assignments=%s" % (o["name"], o["hist"]), {k: o[k] for k in ("read", "tookRequested", "hasEstimator", "explicit")}, replay=None)


def check(run, replay=None):
    run.rule = ("traces: fixed-step family x placement of (t0, tf) (10 patterns) x dt (span/8, span/3, span) x call sequence; "
                "twins: family x span x problem x {shift by 8, -16, 1/2; reflection}; non-trivial = at least two full steps "
                "before the final one / twin with >= 3 steps; distinct by (method, span, dt, ops) resp. (method, span, kind)")
    if replay and isinstance(replay.get("scenario"), dict) and "integreplay" in replay["scenario"]:
        integreplay.phase(run, "C04", ('AttemptedSteps', 'Outcome', 'ReturnedStep'), replay=replay["scenario"]["integreplay"])
        return
    if replay and isinstance(replay.get("scenario"), dict) and "modelreplay" in replay["scenario"]:
        modelreplay.phase(run, [], "C04", ("Rows", "Dt", "RunTerminates"), replay=replay["scenario"]["modelreplay"])
        return
    if replay:
        sc = replay.get("scenario")
        if isinstance(sc, dict) and "twin" in sc:
            jobs = [tuple(sc["twin"])]
            scs = []
        else:
            scs = odecore.replay_scenarios(replay)
            jobs = []
    else:
        run.mc("OdeSystemMC", "OdeSystem_fixed")
        run.mc("OdeSystemMC", "OdeSystem_events_q")
        run.mc("OdeSystemMC", "OdeSystem_landing")       # a terminal root strictly inside a clamped last step: the requested step survives the landing
        if run.tier == "thorough":
            for dev, inv in (("AbsFinalClamp", "FixedStepsEqualDt"), ("DirFromSystemSpan", "SegmentMonotone"), ("ClampAdoptsDt", "FixedDtKeptBetweenSteps"),
                             ("LandingStepCarriedOver", "FixedDtKeptBetweenSteps")):
                core.model_check("OdeSystemMC", "OdeSystem_dev" + dev, expect_violation=inv)
            run.notes["deviation_selftest"] = "absFinalClamp, dirFromSystemSpan, clampAdoptsDt, landingStepCarriedOver each violate their guarding invariant"
        _switch_phase(run)
        scs = scenarios(run.tier, run.seed)
        jobs = twin_cases(run.tier, run.seed)
    if scs:
        traces = odecore.run_traces(scs)
        for sc, tr in zip(scs, traces):
            run.evaluations += 1
            commits = sum(1 for e in tr["events"] if e["e"] == "Counter" and e["new"] == e["old"] + 1)
            if commits >= 3:
                run.nontrivial.add((str(sc["method"]), sc["t0"], sc["tf"], sc["dt"], len(sc["ops"])))
        run.sample({"scenario": scs[0]})
        odecore.judge_traces(run, scs, traces, PREFIX)
    if jobs:
        res = core.pool_map(_run_twin, jobs)
        cases = []
        for k, (job, (ra, rb)) in enumerate(zip(jobs, res)):
            kind, a, b, is_fixed = job
            mode = "rounding" if is_fixed else "tolerance"
            cases.append(twins.case(k, "C04.%s" % ("ShiftInvariance" if kind == "shift" else "ReflectionInvariance"), mode, ra, rb,
                                    rtol=a.get("rtol"), atol=a.get("atol"), negate_b=(kind == "reflect")))
            run.evaluations += 1
            if len(ra["t"]) >= 4:
                run.nontrivial.add((str(a["method"]), a["t0"], a["tf"], kind, b["t0"]))
        run.sample({"twin_case": cases[0]})
        v = run.judge("TwinJudge", {"cases": cases}, name="C04_twins")
        run.traces += len(cases)
        for bad in v["bad"]:
            kind, a, b, is_fixed = jobs[bad["id"]]
            run.violation(bad["clause"], "%s %s %s->%s twin=%s" % (odecore.describe(a), kind, a["t0"], a["tf"], b["t0"]),
                          {"units": cases[bad["id"]]["units"], "tolUnits": cases[bad["id"]]["tolUnits"],
                           "stepsA": len(cases[bad["id"]]["seqA"]), "stepsB": len(cases[bad["id"]]["seqB"])},
                          replay={"twin": [kind, a, b, is_fixed]})
    if not replay:
        # spec -> code: behaviours of Integrator.tla (attempts, the controller's verdicts, retries, giving up, faults) replayed on real
        # integrator objects through the public adaptation_fn hook
        integreplay.phase(run, "C04", ('AttemptedSteps', 'Outcome', 'ReturnedStep'))
        # spec -> code one level up: behaviours of the design model with a fixed-step family (continuation past the configured end, turning
        # round, callbacks assigning dt, events, reset) replayed on the real code: every recorded step and the step in force are the model's
        modelreplay.phase(run, ["OdeSystemSim_fixed_nofault"], "C04", ("Rows", "Dt", "RunTerminates"))
    run.assumptions += ["shifts are dyadic and steps dyadic, so the time arithmetic of the loop is exact and identical step "
                        "sequences are required bit-for-bit; states are compared at rounding level (16 units of eps*max(1,|y|) per step) "
                        "for fixed-step methods and at 100 x (atol + rtol|y|) for adaptive ones (spec/Bounds.tla)"]
