"""C20 -- evaluation counters and callbacks are exact.

Design level : OdeSystem.tla (callbacks may assign dt after every recorded step; the nested landing call on a terminal
               event runs without callbacks) -- SegmentMonotone, NoOvershootOnCommit under every callback choice.
Conformance  : the wrapped right-hand side and a logging DiffRHS subclass are the independent counters; OdeTrace.tla
               checks at EVERY event of every trace that nfev equals the number of completed user calls since
               construction / reset and njev the number of Jacobian requests, and checks the callback protocol
               (order, once per recorded outer step, row visible, assigned dt adopted).  Families: explicit, FSAL,
               implicit with finite-difference and with user Jacobian, splitting, Richardson; with events, dense
               output, rejected steps, faults and resets.  Two systems built from one DiffRHS must count separately.
"""
import numpy as np
from vf import gen, odecore, core, scen, twins

LEVEL = "model_checking"
PREFIX = ("C20.",)


def scenarios(tier, seed):
    thorough = tier == "thorough"
    meths = ["RK4", "DOPRI45", "RK45CK", "ABAS5O6H", "BackwardEuler", "CrankNicolson", "RadauIIA5", "GaussLegendre4",
             {"rich": "RK4", "levels": 3}]
    if thorough:
        meths += ["Euler", "RK5", "AHE", "RK87", "BABS9O7H", "Symplectic Forward Euler", "LobattoIIIC4", "LobattoIIIA4", "RadauIIA3",
                  "ImplicitMidpoint", {"rich": "BackwardEuler", "levels": 2}, {"rich": "RK45CK", "levels": 2}]
    scs = []
    n = 0
    for m in meths:
        fam = scen.family_of(m)
        for (a, b) in ((0.0, 2.0), (1.0, 3.0), (2.0, 0.0), (-5.0, -3.0)):
            span = b - a
            P = lambda f: a + span * f      # noqa
            variants = [
                [{"op": "integrate", "cbs": [{"kind": "noop"}, {"kind": "noop"}, {"kind": "noop"}]}],
                [{"op": "integrate", "cbs": [{"kind": "noop"}, {"kind": "noop"}, {"kind": "mutatelist", "at": 3}]}],      # the caller's list is edited mid-run
                [{"op": "integrate", "cbs": [{"kind": "setdt", "vals": [abs(span) / 16.0, None, abs(span) / 5.0]}, {"kind": "noop"}]}],
                [{"op": "integrate", "events": [{"kind": "time", "c": P(0.3)}, {"kind": "time", "c": P(0.6), "term": True}], "cbs": [{"kind": "noop"}, {"kind": "noop"}]},
                 {"op": "integrate", "cbs": [{"kind": "noop"}]}],
                [{"op": "integrate", "t": P(0.5)}, {"op": "reset"}, {"op": "integrate", "cbs": [{"kind": "noop"}]}],
                [{"op": "integrate", "fault": 9, "cbs": [{"kind": "noop"}]}, {"op": "integrate", "cbs": [{"kind": "noop"}]}, {"op": "reset"}, {"op": "integrate", "t": P(0.4)}],
                [{"op": "integrate", "events": [{"kind": "state", "c": 0.2, "comp": 0}], "cbs": [{"kind": "setdt", "vals": [abs(span) / 10.0]}]}],
            ]
            for k, ops in enumerate(variants):
                n += 1
                if not thorough and (n + seed) % 2 and k not in (2,):
                    continue
                sc = gen.with_tol(gen.base(m, a, b, abs(span) / 6.0))
                sc["ops"] = ops
                sc["dense"] = bool(n % 2)
                if fam in ("fixedimp", "adaptimp") and n % 3 == 0:
                    sc["userjac"] = True
                scs.append(sc)
    return gen.number(scs, "C20_")


def two_system_cases():
    """One DiffRHS handed to two systems: each system must count its own evaluations."""
    import desolver as de
    cases = []
    k = 0
    for meth, preused in (("RK4", False), ("BackwardEuler", False), ("RK45CK", False), ("RK45CK", True), ("BackwardEuler", True), ("RadauIIA5", True)):
        calls = [0]

        def f(t, y):
            calls[0] += 1
            return -y
        shared = de.DiffRHS(f)
        if preused:
            # the wrapper was evaluated (and asked for a finite-difference Jacobian) by the user BEFORE a system was built from it: the
            # system counts the calls made through the system since its construction
            for _ in range(3):
                shared(0.0, np.array([1.0]))
            shared.jac(0.0, np.array([1.0]))
        pre = calls[0]
        a = de.OdeSystem(shared, np.array([1.0]), t=(0.0, 1.0), dt=0.25, rtol=1e-6, atol=1e-6)
        a.method = meth
        seen, real = [], []
        calls[0] -= pre
        c0 = calls[0]
        seen.append(a.nfev); real.append(c0)
        a.integrate(0.5)
        ca = calls[0]
        seen.append(a.nfev); real.append(ca)
        b = de.OdeSystem(shared, np.array([2.0]), t=(1.0, 2.0), dt=0.25, rtol=1e-6, atol=1e-6)
        b.method = meth
        cb0 = calls[0] - ca
        seen.append(b.nfev); real.append(cb0)
        seen.append(a.nfev); real.append(ca)
        b.integrate()
        cb1 = calls[0] - ca
        seen.append(b.nfev); real.append(cb1)
        seen.append(a.nfev); real.append(ca)
        b.reset()
        seen.append(a.nfev); real.append(ca)
        cases.append({"id": k, "clause": "C20.CountersPerSystem", "mode": "exact", "seqA": [int(x) for x in seen], "seqB": [int(x) for x in real],
                      "okA": True, "okB": True, "units": 0, "tolUnits": 0, "method": meth + (" (wrapper used before the system was built)" if preused else "")})
        k += 1
    return cases


def check(run, replay=None):
    run.rule = ("scenarios = method family x span x {3 ordered callbacks, dt-assigning callbacks, terminal event + callbacks + "
                "continuation, reset, fault + resume + reset, state event + dt callback} x dense x user/finite-difference Jacobian; "
                "every event of every trace is a counter comparison; non-trivial = trace with a rejected attempt, a Jacobian request, "
                "an event roll-back or a fault; distinct by (method, span, variant)")
    if replay:
        scs = odecore.replay_scenarios(replay)
    else:
        run.mc("OdeSystemMC", "OdeSystem_adaptive_q", timeout=900)
        scs = scenarios(run.tier, run.seed)
    traces = odecore.run_traces(scs)
    nev = 0
    for sc, tr in zip(scs, traces):
        run.evaluations += 1
        nev += len(tr["events"])
        if any((e["e"] == "Controller" and e["redo"]) or (e["e"] == "Counter" and e["new"] < e["old"]) or e["e"] == "IntegrateRaise"
               or ("s" in e and e["s"]["njev"] > 0) for e in tr["events"]):
            run.nontrivial.add((str(sc["method"]), sc["t0"], sc["tf"], str([o["op"] for o in sc["ops"]]), str(sc["ops"][0].get("cbs"))))
    run.notes["counter_comparisons"] = nev
    run.sample({"scenario": scs[0]})
    odecore.judge_traces(run, scs, traces, PREFIX)
    if not replay:
        cases = two_system_cases()
        v = run.judge("TwinJudge", {"cases": cases}, name="C20_two")
        run.traces += len(cases)
        for b in v["bad"]:
            c = cases[b["id"]]
            run.violation(b["clause"], "two systems from one DiffRHS, %s" % c["method"], {"reported": c["seqA"], "counted": c["seqB"]}, replay=None)
    run.assumptions += ["njev is compared with the number of completed DiffRHS.jac requests (a logging subclass installed for the "
                        "duration of a scenario)", "njev across reset() is not constrained (the property does not require it to be cleared)"]
