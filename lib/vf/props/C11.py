"""C11 -- implicit methods are unconditionally stable on stiff decay.

Design level : Stability.tla: for the eight shipped schemes with rational one- and two-stage tables TLC computes R(z) in exact integer
               arithmetic on z = -2^k, k = 0..10: no pole, |R(z)| <= 1, stiff decay of the L-stable members; Integrator.tla: an
               unconverged stage solve is never returned as accepted (the only way an implicit step can leave the stability function).
Conformance  : one real integrator call per lattice cell: all 16 implicit methods x |z| = |h lambda| over 12 decades (1e-3..1e8) plus the
               specification's cells x {real, damped oscillatory 2x2 block} x sign of h consistent with decay.  StabilityJudge.tla
               decides: an accepted step never increases |y| (a raised tolerance error is allowed and recorded as unobserved), the
               computed amplification agrees with the specification's R(z), the class table is the specification's table.
"""
from fractions import Fraction
import math
import numpy as np
from vf import core, num, traced

LEVEL = "model_checking"
TOL = 1e-10


def cell_job(job):
    import desolver as de
    name, absz, kind, hsign, spec = job[:5]
    warm = len(job) > 5 and bool(job[5])
    cls = getattr(de.integrators, name)
    dt = np.dtype(job[6] if len(job) > 6 else "float64")      # long double: the library's own dogleg solves the stage equations (no MINPACK)
    TOL = job[7] if len(job) > 7 else 1e-10
    h = 0.5 * hsign
    lam = -absz / abs(h) * hsign        # h * lam = -absz
    ncalls = [0]
    if kind == "real":
        L = np.array([[lam]], dtype=dt)
        y0 = np.array([1.0], dtype=dt)
    else:
        # damped oscillation: eigenvalues lam (cos 60deg +- i sin 60deg) -> z in the open left half plane, |z| = absz
        a, b = lam * 0.5, abs(lam) * math.sqrt(3.0) / 2.0
        L = np.array([[a, -b], [b, a]], dtype=dt)
        y0 = np.array([0.8, -0.6], dtype=dt)

    def f(t, y, scale=1.0):
        ncalls[0] += 1
        if ncalls[0] > 40000:
            raise traced.BudgetExceeded("budget")
        return scale * (L @ y)
    f.jac = lambda t, y, scale=1.0: scale * L
    out = {"name": name, "absz": absz, "kind": kind + ("-second-step" if warm else "") + ("" if dt == np.dtype("float64") else " " + dt.name), "hsign": hsign, "spec": bool(spec), "agree": -1, "growTol": 0, "finite": True,
           "tableOk": True, "mustObserve": bool(absz <= 1.0)}
    try:
        integ = cls(y0.shape, dtype=dt, rtol=TOL, atol=TOL)
        rhs = de.DiffRHS(f)
        t_start = np.asarray(0.0, dtype=dt)
        if warm:
            # the measured step is the second step of the same integrator object; the caller changed the decay rate at the hand-over point
            r0 = integ(rhs, t_start, y0.astype(dt), {"scale": 37.0}, np.asarray(h, dtype=dt))
            t_start = t_start + r0[1][0]
            y0 = y0 + np.asarray(r0[1][1])
        r = integ(rhs, t_start, y0.astype(dt), {"scale": 1.0}, np.asarray(h, dtype=dt))
        dT, dY = r[1]
        y1 = y0 + np.asarray(dY)
        n0, n1 = float(np.linalg.norm(y0)), float(np.linalg.norm(y1))
        out["finite"] = bool(np.all(np.isfinite(y1)))
        out["outcome"] = "step"
        if out["finite"] and n1 > n0:
            out["growTol"] = int(min(num.CAP, math.ceil((n1 - n0) / (10 * TOL * n0))))
        out["shortened"] = bool(num.frac(dT) != num.frac(np.asarray(h, dtype=dt)))
        if spec and kind == "real" and not out["shortened"] and out["finite"]:
            R = Fraction(spec["num"], spec["den"])
            out["agree"] = int(min(num.CAP, math.ceil(abs(num.frac(y1[0]) / num.frac(y0[0]) - R) / Fraction(100 * TOL))))
    except traced.BudgetExceeded:
        out["outcome"] = "budget"
    except de.exception_types.FailedToMeetTolerances:
        out["outcome"] = "raised"
    except (ValueError, np.linalg.LinAlgError, OverflowError, FloatingPointError) as e:
        # the library's own dogleg (long double) gives up with "Encountered nan!" on the stiffest cells instead of the tolerance error:
        # no step is accepted either way - unobserved, not a pass
        if dt != np.dtype("float64"):
            out["outcome"] = "raised"
            out["error"] = "%s: %s" % (type(e).__name__, str(e)[:100])
        else:
            out["outcome"] = "error"
            out["error"] = "%s: %s" % (type(e).__name__, str(e)[:100])
    except Exception as e:      # noqa
        out["outcome"] = "error"
        out["error"] = "%s: %s" % (type(e).__name__, str(e)[:100])
    if spec:
        A = np.asarray(cls.tableau_intermediate)[:, 1:]
        b = np.asarray(cls.tableau_final)[0, 1:]
        want = spec["table"]
        ok = A.shape == (len(want["AA"]), len(want["AA"]))
        if ok:
            for i_ in range(A.shape[0]):
                for j_ in range(A.shape[1]):
                    ok = ok and abs(num.frac(A[i_, j_]) * 12 - want["AA"][i_][j_]) <= num.eps_of(dt) * 48
                ok = ok and abs(num.frac(b[i_]) * 12 - want["BB"][i_]) <= num.eps_of(dt) * 48
        out["tableOk"] = bool(ok)
    return out


def check(run, replay=None):
    import desolver as de
    thorough = run.tier == "thorough"
    run.rule = ("lattice = implicit method (16) x |z| decade (1e-3..1e8) and the specification's cells z = -2^k x {real, damped oscillatory 2x2 block} x "
                "sign of h; one real integrator call per cell; non-trivial = cell with |z| >= 10 whose step was accepted; distinct by cell")
    gen = run.generate("Stability", workers=2)
    for cfg in ("fixedimp", "adaptimp"):
        run.mc("IntegratorMC", "Integrator_" + cfg, workers=2)
    names = [c.__name__ for c in de.integrators.implicit_methods()]
    jobs = []
    decades = [10.0 ** k for k in range(-3, 9)]
    for n in names:
        if n == "RadauIIA19" and not thorough:
            ds = [1e-2, 1.0, 1e2, 1e5]
        else:
            ds = decades
        for z in ds:
            for kind in ("real", "osc"):
                for hs in (1, -1):
                    jobs.append((n, z, kind, hs, None))
                if z <= 1e3:
                    jobs.append((n, z, kind, 1, None, True))
    # long double: the stage equations are solved by the library's own dogleg (scipy's MINPACK front end takes doubles only)
    for n in names:
        if n == "RadauIIA19" and not thorough:
            continue
        for z in ((1e-1, 1e2, 1e4, 1e6) if not thorough else decades):
            for kind in (("real",) if not thorough else ("real", "osc")):
                for hs in (1, -1):
                    jobs.append((n, z, kind, hs, None, False, "longdouble", 1e-6))
    for c in gen["cells"]:
        if c["name"] in names:
            for hs in (1, -1):
                jobs.append((c["name"], float(-c["z"]), "real", hs, {"num": c["num"], "den": c["den"], "table": gen["tables"][c["name"]]}))
            if -c["z"] <= 64:
                jobs.append((c["name"], float(-c["z"]), "real", 1, {"num": c["num"], "den": c["den"], "table": gen["tables"][c["name"]]}, True))
    obs = core.pool_map(cell_job, jobs)
    outcomes = {}
    for k, o in enumerate(obs):
        o["id"] = k
        run.evaluations += 1
        outcomes[o["outcome"]] = outcomes.get(o["outcome"], 0) + 1
        if o["outcome"] == "step" and o["absz"] >= 10:
            run.nontrivial.add((o["name"], o["absz"], o["kind"], o["hsign"], o["spec"]))
    run.notes["outcomes"] = outcomes
    run.notes["unobserved_cells"] = sorted({"%s |z|=%g %s" % (o["name"], o["absz"], o["kind"]) for o in obs if o["outcome"] != "step"})[:60]
    run.sample({"cell": obs[0], "spec_cell": obs[-1]})
    payload = [{k: o[k] for k in ("id", "outcome", "growTol", "agree", "finite", "tableOk", "mustObserve")} for o in obs]
    v = run.judge("StabilityJudge", {"cases": payload}, name="C11_cells")
    run.traces += len(obs)
    for b in v["bad"]:
        o = obs[b["id"]]
        run.violation(b["clause"], "%s |z|=%g %s h%s%s" % (o["name"], o["absz"], o["kind"], "+" if o["hsign"] > 0 else "-", " spec" if o["spec"] else ""),
                      {k: v_ for k, v_ in o.items() if k != "id"}, replay=None)
    run.assumptions += ["a cell in which the library raises FailedToMeetTolerances (or exhausts the evaluation budget) is recorded as unobserved, not as a pass; "
                        "cells with |z| <= 1 must be observed", "agreement with R(z) only for the eight schemes with rational 1-2 stage tables on the negative real axis",
                        "stage-solver tolerance 1e-10: 'never increases' allows 10 tol relative growth"]
