"""C18 -- the solve_ivp facade honours its arguments and agrees with the object API.

Design level : Facade.tla: the facade's own logic (sort t_eval, one integrate(t) per requested time, a repeated time is a no-op, one
               collected column per requested time) on every t_eval of length <= 4 over a small tick range: ReturnsExactlyTheRequestedTimes
               Sorted, OneColumnPerRequestedTime, NeverIntegratesBackwards.
Conformance  : a lattice of real solve_ivp calls (methods by name and by class, t_eval subsets with/without end points, unsorted, repeated;
               state shapes (), (n,), (n,m); args tuples; max_step under rejection; tolerances; events; dense output) is executed; the
               same problem is then driven through OdeSystem with the same settings; FacadeJudge.tla decides shapes, pairing, requested
               times, args order, max_step, that the result fields are those of the underlying system, bit-for-bit agreement with the
               object API and (exploration level) agreement with scipy.
"""
from fractions import Fraction
import math
import numpy as np
from vf import core, num, twins

LEVEL = "model_checking"


def lattice(tier, seed):
    thorough = tier == "thorough"
    cells = []
    methods = ["RK45", "RK87", "RK4", "DOPRI45", "RadauIIA5", "cls:RK45CKSolver", "cls:BackwardEuler", "ABAS5O6H"]
    if thorough:
        methods += ["RK108", "AHE", "LobattoIIIC4", "cls:DOPRI45", "Midpoint", "cls:GaussLegendre4"]
    tevals = [None, [1.0, 0.25, 0.5], [0.0, 2.0], [0.5, 0.5, 1.5, 2.0, 0.0], [1.75], [0.3, 0.1, 0.2, 0.1]]
    shapes = ["vec2", "scalar0", "mat22", "vec1"]
    n = 0
    for m in methods:
        for te in tevals:
            for sh in shapes:
                n += 1
                if not thorough and (n + seed) % 3 and sh != "vec2":
                    continue
                if m == "ABAS5O6H" and sh in ("scalar0", "vec1"):
                    continue
                cells.append({"method": m, "t_eval": te, "shape": sh, "args": (n % 2 == 0), "max_step": (0.0625 if n % 3 == 0 else None),
                              "tol": (1e-8 if n % 2 else 1e-5), "atolf": (1.0 if n % 3 else 1e-3),      # atol = tol * atolf: distinct tolerances
                              "dense": bool(n % 4 == 1), "events": bool(n % 5 == 0)})
    # a TERMINAL event at t = 1.3: the requested times before it are the result, nothing beyond it, the event reported once (finding f38)
    for m in methods:
        for te in tevals:
            n += 1
            if not thorough and (n + seed) % 2 and te is not None and len(te) != 5:
                continue
            cells.append({"method": m, "t_eval": te, "shape": ("vec2" if n % 2 else "mat22"), "args": (n % 3 == 0), "max_step": None, "tol": 1e-6, "atolf": 1.0,
                          "dense": bool(n % 2), "events": True, "terminal": True})
    # one callbacks LIST shared by two facade calls: a call with min_step, then the observed call with max_step (the facade adds its own
    # step-bounding callback to a copy; what an earlier call added must not act in a later one, the caller's list stays as it was)
    for m in ["RK45", "RK87", "cls:RK45CKSolver"] + (["DOPRI45", "RK108"] if thorough else []):
        for te in (None, [0.5, 1.5, 2.0]):
            n += 1
            cells.append({"method": m, "t_eval": te, "shape": "vec2", "args": False, "max_step": 0.0625, "tol": 1e-3, "atolf": 1.0,
                          "dense": False, "events": False, "sharedCallbacks": True})
    # backward spans through the facade (without t_eval, which it only accepts on forward spans): with and without step bounds
    for m in methods:
        for k, sh in enumerate(("vec2", "mat22")):
            for ms in (None, 0.0625, 0.5):
                n += 1
                if not thorough and (n + seed) % 2 and ms is None:
                    continue
                if m == "ABAS5O6H" and ms is None and sh == "mat22":
                    continue
                cells.append({"method": m, "t_eval": None, "shape": sh, "args": (n % 2 == 0), "max_step": ms, "tol": 1e-6, "atolf": 1.0,
                              "dense": bool(n % 2), "events": False, "backward": True, "min_step": (1e-7 if n % 3 == 0 else None)})
    return cells


class Budget(BaseException):       # not an Exception: integrate() must not wrap it
    pass


def _problem(cell):
    sh = cell["shape"]
    if sh == "scalar0":
        y0 = np.array(1.0)
    elif sh == "vec1":
        y0 = np.array([1.0])
    elif sh == "vec2":
        y0 = np.array([1.0, 0.5])
    else:
        y0 = np.array([[1.0, 0.5], [0.25, 2.0]])
    calls = [0]

    def tick():
        calls[0] += 1
        if calls[0] > 300000:       # the largest legitimate cell needs about 30 000 evaluations
            raise Budget("more than 300000 right-hand-side evaluations")
    sg = -1.0 if cell.get("backward") else 1.0      # the time-reflected problem on a backward span (the forward one blows up backward in time)
    if cell["args"]:
        # a right-hand side with MORE parameters than the args tuple supplies: args bind to the parameters that follow (t, y), the rest keep defaults
        def f(t, y, a, b, c=1.0):
            tick()
            return sg * (-a * y * y + b * np.cos(c * t))
        args = (0.75, 0.125)
    else:
        def f(t, y):
            tick()
            return sg * (-0.75 * y * y + 0.125 * np.cos(t))
        args = None
    return f, y0, args


def cell_job(cell):
    import desolver as de
    import scipy.integrate
    f, y0, args = _problem(cell)
    out = {"cell": {k: (list(v) if isinstance(v, list) else v) for k, v in cell.items()}, "ran": False}
    meth = cell["method"]
    method = getattr(de.integrators, meth[4:]) if meth.startswith("cls:") else meth
    span = (2.0, 0.0) if cell.get("backward") else (0.0, 2.0)
    opts = dict(rtol=cell["tol"], atol=cell["tol"] * cell.get("atolf", 1.0), first_step=0.25)
    if cell["max_step"] is not None:
        opts["max_step"] = cell["max_step"]
    if cell.get("min_step") is not None:
        opts["min_step"] = cell["min_step"]
    evs = None
    if cell["events"] and cell["shape"] != "scalar0":
        def ev(t, y, **constants):
            return t - 1.3
        if cell.get("terminal"):
            ev.is_terminal = True
        evs = [ev]
    term = bool(cell.get("terminal")) and evs is not None
    TE = 1.3
    try:
        shared = None
        if cell.get("sharedCallbacks"):
            seen = []
            shared = [lambda s_: seen.append(float(s_.t[-1]))]
            o1 = dict(opts)
            o1.pop("max_step", None)
            de.solve_ivp(f, span, y0, method=method, min_step=0.5, callbacks=shared, args=args, **o1)
            opts["callbacks"] = shared
        res = de.solve_ivp(f, span, y0, method=method, t_eval=cell["t_eval"], dense_output=cell["dense"], events=evs, args=args, **opts)
        out["ran"] = True
        out["callerListUntouched"] = bool(shared is None or len(shared) == 1)
        opts.pop("callbacks", None)
        sysm = res.ode_system
        t, y = np.asarray(res.t), np.asarray(res.y)
        nt = len(t)
        out["tShapeOk"] = bool(t.shape == (nt,))
        out["yShapeOk"] = bool(y.shape == tuple(y0.shape) + (nt,))
        te = cell["t_eval"]
        out["hasTEval"] = te is not None
        # with a terminal event the requested times BEFORE the event are the result (Facade.tla: Reached)
        want = None if te is None else [x for x in sorted(te) if not term or x < TE]
        out["nTEval"] = 0 if te is None else len(want)
        out["beyondEvent"] = bool(term and any(float(x) > TE + 1e-9 for x in t))
        out["nEvents"] = len(res.t_events)
        out["wantEvents"] = -1 if not term else (1 if (te is None or max(te) > TE) else 0)      # the run meets the event iff it goes beyond it
        out["startsAtInitialCondition"] = True
        if te is None and out["yShapeOk"]:
            out["startsAtInitialCondition"] = bool(num.frac(t[0]) == Fraction(span[0]) and np.array_equal(y[..., 0], y0))
        # columns pair with the rows the underlying system recorded at those times
        pair = out["yShapeOk"]
        if pair:
            st, sy = np.asarray(sysm.t), np.asarray(sysm.y)
            for k in range(nt):
                idx = [i for i in range(len(st)) if num.frac(st[i]) == num.frac(t[k])]
                pair = pair and any(np.array_equal(sy[i], y[..., k]) for i in idx)
        out["columnsPair"] = bool(pair)
        out["tGaps"] = [] if te is None else ([num.gap_units(a, b, [b], np.float64) for a, b in zip(t, want)] if len(t) == len(want) else [num.CAP] * (len(want) + 1))
        out["sortedNondecreasing"] = bool(np.all(np.diff(t) >= 0)) if not cell.get("backward") else bool(np.all(np.diff(t) <= 0))
        # without t_eval and without a terminal event the run covers the span
        goal = TE if term else span[1]
        out["endUnits"] = num.gap_units(t[-1], goal, [goal, span[0]], np.float64) if (te is None and nt > 0) else 0
        # steps of the underlying system against max_step
        steps = np.abs(np.diff(np.asarray(sysm.t)))
        ms = cell["max_step"]
        out["maxStepUnits"] = 0 if ms is None or len(steps) == 0 else int(min(num.CAP, math.ceil(max(0.0, float(np.max(steps)) - ms) / (2.2e-16 * max(1.0, ms)))))
        out["fieldsOfUnderlyingSystem"] = bool(res.sol is sysm.sol and res.nfev == sysm.nfev and res.njev == sysm.njev and res.success == sysm.success
                                              and res.status == sysm.integration_status and res.t_events is sysm.events)
        # the same problem through the object API
        consts = None
        if args is not None:
            consts = {"a": args[0], "b": args[1]}
        dt0 = 0.25 if ms is None else min(0.25, ms)
        o = de.OdeSystem(f, y0, t=span, dense_output=cell["dense"], dt=dt0, rtol=cell["tol"], atol=cell["tol"] * cell.get("atolf", 1.0), constants=consts)
        o.method = method
        cbs = []
        if ms is not None:
            cbs.append(lambda s_: setattr(s_, "dt", np.clip(np.abs(s_.dt), cell.get("min_step") or 0.0, ms)))      # bounds are magnitudes
        elif cell.get("min_step") is not None:
            cbs.append(lambda s_: setattr(s_, "dt", np.clip(np.abs(s_.dt), cell["min_step"], np.inf)))
        ot, oy = [], []
        if te is None:
            o.integrate(callback=cbs, events=evs)
            same = bool(np.array_equal(np.asarray(o.t), t) and np.array_equal(np.moveaxis(np.asarray(o.y), 0, -1), y))
        else:
            for tt in sorted(te):
                o.integrate(t=tt, callback=cbs, events=evs)
                if term and o.integration_status.startswith("Integration terminated"):
                    break          # driving the object by hand one stops at the terminal event
                ot.append(o[-1].t)
                oy.append(o[-1].y)
            same = bool(np.array_equal(np.asarray(ot), t) and (np.array_equal(np.stack(oy, axis=-1), y) if oy else y.shape[-1] == 0))
        out["objectApiIdentical"] = same
        # args order: swapping the two arguments must change the result (i.e. they are bound by position, not both to one name)
        out["argsBoundInOrder"] = True
        if args is not None:
            res2 = de.solve_ivp(f, span, y0, method=method, t_eval=cell["t_eval"], args=(args[1], args[0]), events=evs, **opts)
            sg_ = -1.0 if cell.get("backward") else 1.0
            ref = de.solve_ivp(lambda t_, y_: sg_ * (-args[0] * y_ * y_ + args[1] * np.cos(t_)), span, y0, method=method, t_eval=cell["t_eval"], events=evs, **opts)
            # compared on the underlying systems' whole trajectories (with t_eval and a terminal event the result may hold the initial column only)
            full, fref, fswap = np.asarray(sysm.y), np.asarray(ref.ode_system.y), np.asarray(res2.ode_system.y)
            out["argsBoundInOrder"] = bool(np.array_equal(np.asarray(ref.y), y) and np.array_equal(fref, full)
                                           and not (fswap.shape == full.shape and np.array_equal(fswap, full)))
        # scipy (exploration): end state at tight tolerance
        out["scipyTolUnits"] = -1
        out["solTolUnits"] = -1
        mcls = method if not isinstance(method, str) else de.integrators.available_methods(False)[method]
        adaptive = hasattr(mcls, "tableau_final") and np.asarray(mcls.tableau_final).shape[0] == 2
        if evs is None and adaptive:
            fs = (lambda t_, y_: f(t_, y_.reshape(y0.shape), *(args or ())).reshape(-1))
            tend = span[1] if te is None else sorted(te)[-1]
            if tend != span[0]:
                ref = scipy.integrate.solve_ivp(fs, (span[0], tend), np.asarray(y0, dtype=float).reshape(-1), method="DOP853", rtol=1e-12, atol=1e-12)
                yend = ref.y[:, -1].reshape(y0.shape)
                out["scipyTolUnits"] = twins.tol_units(y[..., -1], yend, cell["tol"], cell["tol"] * cell.get("atolf", 1.0))
                out["solTolUnits"] = out["scipyTolUnits"] if te is not None else -1
    except Budget as e:
        out["ran"] = False
        out["error"] = "RunTerminates: %s" % e
    except Exception as e:      # noqa
        out["error"] = "%s: %s" % (type(e).__name__, str(e)[:160])
    return out


def check(run, replay=None):
    run.rule = ("cells = method (by name / by class) x t_eval (none; unsorted; end points only; repeated and with end points; single; repeated without end "
                "points) x state shape ((), (1,), (2,), (2,2)) x args x max_step x tolerance x dense x events; non-trivial = cell with t_eval or max_step or "
                "args; distinct by cell")
    run.mc("Facade", workers=4)
    if run.tier == "thorough":
        core.model_check("Facade", "Facade_devCarriesOn", expect_violation="ReturnsExactlyTheRequestedTimesSorted")      # the facade before repair 37
    cells = lattice(run.tier, run.seed)
    obs = core.pool_map(cell_job, cells)
    defaults = {"ran": False, "tShapeOk": True, "yShapeOk": True, "startsAtInitialCondition": True, "columnsPair": True, "hasTEval": False, "nTEval": 0, "tGaps": [],
                "sortedNondecreasing": True, "endUnits": 0, "solTolUnits": -1, "argsBoundInOrder": True, "maxStepUnits": 0, "fieldsOfUnderlyingSystem": True,
                "objectApiIdentical": True, "scipyTolUnits": -1, "beyondEvent": False, "nEvents": 0, "wantEvents": -1, "callerListUntouched": True}
    payload = []
    for k, o in enumerate(obs):
        o["id"] = k
        run.evaluations += 1
        c = cells[k]
        if c["t_eval"] is not None or c["max_step"] is not None or c["args"]:
            run.nontrivial.add(str(sorted((kk, str(v)) for kk, v in c.items())))
        p = dict(defaults)
        p.update({kk: v for kk, v in o.items() if kk in defaults})
        p["id"] = k
        payload.append(p)
    run.notes["errors"] = sorted({o.get("error", "")[:80] for o in obs if "error" in o})[:10]
    run.notes["worst_scipy_units"] = max(o.get("scipyTolUnits", -1) for o in obs)
    run.sample({"cell": obs[0]})
    v = run.judge("FacadeJudge", {"cases": payload}, name="C18_facade")
    run.traces += len(obs)
    for b in v["bad"]:
        o = obs[b["id"]]
        c = cells[b["id"]]
        run.violation(b["clause"], "method=%s t_eval=%s shape=%s args=%s max_step=%s tol=%g atol/rtol=%g dense=%s events=%s" % (c["method"], c["t_eval"], c["shape"], c["args"], c["max_step"], c["tol"], c.get("atolf", 1.0), c["dense"], c["events"]),
                      {k: v_ for k, v_ in o.items() if k not in ("cell", "id")}, replay=None)
    run.assumptions += ["forward spans only (the facade's range check rejects t_eval on backward spans; the property does not quantify over them)",
                        "scipy agreement is exploration level: end state against DOP853 at 1e-12 within 1000 tolerance units"]
