"""C07 -- reported events are genuine, correctly located, ordered and unique.

Design level : OdeSystem.tla: EventsAreRoots, NoEventTwice (incl. roots on step boundaries shared by two steps and by two
               events; deviation "dedupByPosition" violates NoEventTwice), TerminalStop.
Conformance  : every scenario of the event lattice (time, state and derivative events; scales 1e-6..1e6; directions; up to 6
               simultaneous events; interior, boundary and last-ulp roots; all families; both directions; dense on/off) is run
               under the sensor.  OdeTrace.tla checks each EventRec inside its step, ordered, unique; EventJudge.tla decides
               residual, equality with the dense solution, distance to the true root, direction and uniqueness against the
               ground truth the scenario defines.
"""
from vf import modelreplay, odecore, core, evgen, dense_events, gen

LEVEL = "model_checking"
PREFIX = ("C07.",)
PID = "C07"


def run_events(run, replay, prefix, pid):
    if replay and isinstance(replay.get("scenario"), dict) and "modelreplay" in replay["scenario"]:
        modelreplay.phase(run, [], pid, ("Events",), replay=replay["scenario"]["modelreplay"])
        return
    if replay:
        scs = odecore.replay_scenarios(replay)
    else:
        run.mc("OdeSystemMC", "OdeSystem_events_q")
        if run.tier == "thorough":
            run.mc("OdeSystemMC", "OdeSystem_events")
            core.model_check("OdeSystemMC", "OdeSystem_devDedupByPosition", expect_violation="NoEventTwice")
        scs = evgen.event_scenarios(run.tier, run.seed, pid + "_")
    obs = core.pool_map(dense_events.observe, scs)
    crashed = [o for o in obs if "crash" in o]
    if crashed:
        raise core.MachineryError("sensor crashed on %s:\n%s" % (crashed[0]["id"], crashed[0]["crash"]))
    traces = [o["trace"] for o in obs]
    cases = []
    for sc, o in zip(scs, obs):
        run.evaluations += 1
        if o["ev"] is not None:
            c = dict(o["ev"])
            c["id"] = sc["id"]
            cases.append(c)
            if any(s["change"] for s in c["steps"]):
                run.nontrivial.add((str(sc["method"]), sc["t0"], sc["tf"], str(sc["ops"][0]["events"])))
    run.notes["crossings_examined"] = sum(1 for c in cases for s in c["steps"] if s["change"])
    run.notes["events_examined"] = sum(len(c["recs"]) for c in cases)
    run.sample({"scenario": scs[0], "event_case": {k: (v[:3] if isinstance(v, list) else v) for k, v in cases[0].items()}})
    odecore.judge_traces(run, scs, traces, prefix)
    v = run.judge("EventJudge", {"cases": cases}, name=pid + "_events", shards=8, shard_key="cases")
    run.traces += len(cases)
    byid = {sc["id"]: sc for sc in scs}
    cby = {c["id"]: c for c in cases}
    for b in v["bad"]:
        if not any(b["clause"].startswith(p) for p in prefix):
            continue
        sc = byid[b["id"]]
        c = cby[b["id"]]
        k = b.get("k", 0)
        detail = {"k": k}
        if "Crossing" in b["clause"] and "Truth" not in b["clause"] and "Twice" not in b["clause"] and 1 <= k <= len(c["steps"]):
            detail["step"] = c["steps"][k - 1]
            detail["event_spec"] = sc["ops"][0]["events"][c["steps"][k - 1]["ev"]]
        elif 1 <= k <= len(c["recs"]) and b["clause"].startswith("C07.") and "Twice" not in b["clause"]:
            detail["rec"] = c["recs"][k - 1]
            detail["event_spec"] = sc["ops"][0]["events"][c["recs"][k - 1]["ev"]]
        elif 1 <= k <= len(c["truths"]):
            detail["truth"] = c["truths"][k - 1]
        run.violation(b["clause"], odecore.describe(sc) + " t0=%s" % sc["t0"], detail, replay=sc)
    if not replay and pid == "C08":
        _dense_twins(run)
    if not replay:
        # spec -> code: behaviours of the design model with events (roots on step boundaries shared by two steps, two functions crossing in
        # one step in either order, terminal after non-terminal, continuation calls) replayed on the real code: the reported events must
        # be exactly the model's, in its order
        modelreplay.phase(run, ["OdeSystemSim_fixed_nofault", "OdeSystemSim_adaptive_nofault", "OdeSystemSim_fixed_nodense", "OdeSystemSim_adaptive_nodense"], pid,
                          ("Events",), keep=modelreplay.has_events)


def _twin_job(job):
    from vf import scen
    A, B = job
    ra, rb = scen.run_plain(A), scen.run_plain(B)
    ra.pop("system"), rb.pop("system")
    return ra, rb


def _dense_twins(run):
    """C08 "... does not depend on ... whether dense output is kept": the same run with and without dense output records the same rows
    and the same events, bit for bit (without dense output the library keeps a sliding window of interpolants while events are monitored;
    Richardson wrappers contribute several pieces per step)."""
    from vf import gen, twins
    thorough = run.tier == "thorough"
    jobs = []
    meths = ["RK4", "RK45CK", {"rich": "RK4", "levels": 3}, {"rich": "RK45CK", "levels": 2}, "RadauIIA5", "ABAS5O6H"] + \
            ([{"rich": "RK87", "levels": 4}, "BackwardEuler", "RK87", {"rich": "Midpoint", "levels": 4}] if thorough else [])
    for m in meths:
        for (a, b) in ((0.0, 10.0), (10.0, 0.0), (-3.0, -9.0)):
            A = gen.with_tol(gen.base(m, a, b, 0.25, dense=True))
            A["ops"] = [{"op": "integrate", "events": [{"kind": "state", "c": c, "comp": k % 2, "s": s} for k, (c, s) in
                                                        enumerate(((0.3, 1.0), (-0.2, 1e3), (0.75, 1e-3), (-0.6, 1.0)))] +
                                                       [{"kind": "time", "c": a + (b - a) * 0.37}]}]
            B = dict(A, dense=False)
            jobs.append((A, B))
    res = core.pool_map(_twin_job, jobs)
    cases = [twins.case(k, "C08.EventsDoNotDependOnDenseOutput", "exact", ra, rb, seq="rows-events") for k, (ra, rb) in enumerate(res)]
    v = run.judge("TwinJudge", {"cases": cases}, name="C08_dense_twins")
    run.traces += len(cases)
    run.evaluations += len(cases)
    for bad in v["bad"]:
        A, B = jobs[bad["id"]]
        run.violation(bad["clause"], "dense on/off " + odecore.describe(A), {"eventsA": len(res[bad["id"]][0]["events"]), "eventsB": len(res[bad["id"]][1]["events"])},
                      replay=A)


def check(run, replay=None):
    run.rule = ("event lattice = method family x span (forward/backward, negative and large times) x mix (one event per scale; boundary "
                "and interior roots with directions; state events x scale x direction; derivative event; coincident crossings; terminal "
                "after non-terminal in one step; last-ulp crossing) x dense; non-trivial = at least one strict sign change of an event "
                "function across an accepted step; distinct by (method, span, mix)")
    run_events(run, replay, PREFIX, PID)
    run.assumptions += ["ground truth for the location of roots: time events (root = c) and state events on y' = -y^2 (t* = 1/c - 1); other "
                        "state/derivative events are checked on residual, dense-solution equality, direction, ordering, uniqueness",
                        "direction is read along the run (g from the end the step comes from to the end it goes to), on backward runs too: the "
                        "reading of the pinned library and of scipy's solve_ivp, which the facade replaces"]
