"""C02 -- one step equals the Runge-Kutta update defined by the method's coefficients.

Design level : Integrator.tla: the call protocol of an integrator object (cached end slope, attempts, controller verdict, stage-solve outcome,
               strictly shrinking retries, giving up) under every environment choice: NeverReturnRejectedOrUnconverged, RetryShrinks,
               SlopeCacheConsistent, BoundedAttempts (four deviations are shown to violate them).  RKDataflow.tla states the stage dataflow of a step as a protocol over slope symbols (which call happens when, at which
               node, with which linear combination of earlier slopes; first-same-as-last reuse; where the end slope is taken).
Conformance  : (read-back, exact) the right-hand side is scripted to return the unit vector e_k on its k-th call, so with h = +-1 from
               (0, 0) every operation of the stage loop is exact: the state of call k IS the coefficient row used, its time the node used,
               the increment the weights used.  Two consecutive steps of every explicit method x dtype x sign of h are recorded and
               RKDataflow.tla compares every call with the class tableau (interned exact floats) - bit for bit;
               (defining equations, any f) for random smooth nonlinear time-dependent right-hand sides, all methods (explicit, implicit,
               splitting), shapes, dtypes and both signs of h, the recorded stage slopes k_i must satisfy k_i = f(t + c_i h, y + h sum a_ij k_j)
               and the increment must be h sum b_i k_i - to rounding for explicit methods, to the solver tolerance for implicit ones;
               StageJudge.tla decides from misses computed in exact rational arithmetic on the observed values;
               (protocol) traces of implicit methods on a problem whose stage equations fail to converge are validated by OdeTrace.tla:
               an unconverged step is never returned as accepted (C02.UnconvergedStepNeverAccepted).
"""
from fractions import Fraction
import math
import numpy as np
from vf import core, num, gen, odecore, scen

LEVEL = "model_checking"
PREFIX = ("C02.",)


# ---------------------------------------------------------------------------------------------
# (a) exact read-back

def readback_job(job):
    import desolver as de
    name, dtn, hsign = job
    cls = getattr(de.integrators, name)
    dt = np.dtype(dtn)
    A = np.asarray(np.asarray(cls.tableau_intermediate), dtype=dt)
    B = np.asarray(np.asarray(cls.tableau_final), dtype=dt)
    s = A.shape[0]
    fsal = bool(np.all(A[-1, 1:] == B[0, 1:]))
    per = s if fsal else s + 1
    dim = 1 + 2 * per
    table = {Fraction(0): 0}

    def idf(x):
        f = num.frac(x)
        if f not in table:
            table[f] = len(table)
        return table[f]
    calls = []
    k = [0]

    def rhs(t, y):
        k[0] += 1
        calls.append((np.array(t, copy=True), np.array(y, copy=True)))
        out = np.zeros((dim,), dtype=dt)
        if k[0] <= dim:
            out[k[0] - 1] = 1
        return out
    integ = cls((dim,), dtype=dt, rtol=1e30, atol=1e30)
    h = np.asarray(float(hsign), dtype=dt)
    t0 = np.asarray(0.0, dtype=dt)
    y0 = np.zeros((dim,), dtype=dt)
    _, (dT1, dY1) = integ(rhs, t0, y0, {}, h)
    dY1 = np.array(dY1, copy=True)
    err1 = np.array(integ.get_error_estimate(), copy=True) if B.shape[0] == 2 else None
    _, (dT2, dY2) = integ(rhs, t0 + dT1, y0 + dY1, {}, h)
    one = np.asarray(1.0, dtype=dt)
    case = {"name": name, "dtype": dtn, "s": int(s), "fsal": fsal, "dim": int(dim), "hneg": hsign < 0,
            "A": [[idf(x) for x in A[i, 1:]] for i in range(s)], "c": [idf(x) for x in A[:, 0]], "b": [idf(x) for x in B[0, 1:]],
            "one": idf(one), "t2": [idf(h + h * ci) for ci in list(A[:, 0]) + [one]],
            "calls": [{"t": idf(t), "y": [idf(v) for v in y]} for (t, y) in calls],
            "inc1": [idf(v) for v in dY1], "inc2": [idf(v) for v in np.asarray(dY2)],
            "hasErr": err1 is not None, "err1": [idf(v) for v in (err1 if err1 is not None else np.zeros(dim))],
            "dbSigned": [idf(x) for x in ((B[0, 1:] - B[1, 1:]) if B.shape[0] == 2 else np.zeros(s))],
            "dT1ok": bool(num.frac(dT1) == num.frac(h)), "dT2ok": bool(num.frac(dT2) == num.frac(h))}
    # negation table (after all values are interned, close it under negation)
    for f in list(table.keys()):
        if -f not in table:
            table[-f] = len(table)
    inv = {v: k_ for k_, v in table.items()}
    case["neg"] = [table[-inv[i]] for i in range(1, len(table))]      # neg[id] for id >= 1 (TLA+ sequences are 1-based)
    return case


# ---------------------------------------------------------------------------------------------
# (b) defining equations on arbitrary right-hand sides

def _rand_rhs(seed, shape, dt):
    rnd = np.random.RandomState(seed)
    n = int(np.prod(shape))
    W = np.asarray(rnd.uniform(-0.4, 0.4, (n, n)), dtype=dt)
    v = np.asarray(rnd.uniform(-1, 1, (n,)), dtype=dt)
    w2 = np.asarray(rnd.uniform(-0.3, 0.3, (n,)), dtype=dt)

    def f(t, y):
        z = np.reshape(y, (-1,))
        out = np.sin(W @ z + v * t) - np.asarray(0.5, dtype=dt) * z + w2 * np.cos(t) * z * z
        return np.reshape(out, np.shape(y))
    return f


def stage_job(job):
    import desolver as de
    name, dtn, hval, shape, seed = job[:5]
    warm = len(job) > 5 and bool(job[5])
    cls = getattr(de.integrators, name)
    dt = np.dtype(dtn)
    eps = num.eps_of(dt)
    split = issubclass(cls, de.integrators.ExplicitSymplecticIntegrator)
    f = _rand_rhs(seed, shape, dt)
    calls = []

    f_base = f

    def g(t, y, k=1.0):
        out = np.asarray(k, dtype=dt) * f_base(t, y)
        calls.append((np.array(t, copy=True), np.array(y, copy=True), np.array(out, copy=True)))
        return out
    rhs = de.DiffRHS(g)
    consts = {"k": 1.0}
    if warm:
        # the measured step is the SECOND step of the same integrator object, taken after the caller changed a constant of the
        # right-hand side at the hand-over point
        consts = {"k": 0.5}

        def f(t, y):     # noqa  (the right-hand side in force during the measured step)
            return np.asarray(0.5, dtype=dt) * f_base(t, y)
    rnd = np.random.RandomState(seed + 1)
    y0 = np.asarray(rnd.uniform(-1, 1, shape), dtype=dt)
    t0 = np.asarray(rnd.uniform(-2, 2), dtype=dt)
    h = np.asarray(hval, dtype=dt)
    out = {"name": name, "dtype": dtn, "h": hval, "shape": list(shape), "seed": seed, "kind": "split" if split else "rk", "warm": warm}
    tolN = 1e-12 if dtn != "float32" else 1e-5
    try:
        if split:
            integ = cls(tuple(shape), dtype=dt)
        else:
            ti = np.asarray(cls.tableau_intermediate)
            implicit = not all((ti[c, c + 1:] == 0.0).all() for c in range(ti.shape[0]))
            integ = cls(tuple(shape), dtype=dt, rtol=(tolN if implicit else 1e30), atol=(tolN if implicit else 1e30))
            out["kind"] = "implicit" if implicit else "explicit"
        if warm:
            r0 = integ(rhs, t0, y0, {"k": 1.0}, h)
            t0 = t0 + r0[1][0]
            y0 = y0 + r0[1][1]
            del calls[:]
        if out["kind"] == "implicit":
            integ.initial_state = y0.copy()
            integ.initial_time = t0
            integ.initial_rhs = rhs(t0, y0, **consts)
            res = integ.step(rhs, t0, y0, consts, h)
            converged = bool(integ.solver_dict.get("newton_iteration_success"))
        else:
            res = integ(rhs, t0, y0, consts, h)
            converged = True
        dT, dY = res[1]
    except Exception as e:      # noqa
        out.update(observed=False, stageUnits=[], incUnits=0, converged=False, error="%s: %s" % (type(e).__name__, str(e)[:100]))
        return out

    def fr(a):
        return [num.frac(x) for x in np.asarray(a).reshape(-1)]
    n = int(np.prod(shape))
    y0f = fr(y0)
    hf = num.frac(h)
    stage_units = []
    if split:
        T = np.asarray(np.asarray(cls.tableau_intermediate), dtype=dt)
        kick = fr(np.asarray(integ.kick_mask))
        acc = [Fraction(0)] * n
        tacc = num.frac(t0)
        st_calls = calls[:T.shape[0]]
        for st, (tc, yc, kc) in enumerate(st_calls):
            # state handed to sub-step st must be y0 + increments so far; time t0 + h * sum of drift coefficients so far
            yu = max(num.units(a, y0f[q] + acc[q], max(Fraction(1), abs(y0f[q])) * (2 * st + 2), eps) for q, a in enumerate(np.asarray(yc).reshape(-1)))
            tu = num.units(tc, tacc, max(Fraction(1), abs(tacc)) * (2 * st + 2), eps)
            stage_units.append(max(yu, tu))
            kf = fr(kc)
            a_, b_ = num.frac(T[st, 1]), num.frac(T[st, 2])
            for q in range(n):
                acc[q] += hf * kf[q] * (b_ if kick[q] != 0 else a_)
            tacc += hf * a_
        inc = acc
        scale_inc = [max(Fraction(1), abs(v)) for v in inc]
        nroundings = 4 * T.shape[0]
    else:
        A = np.asarray(np.asarray(cls.tableau_intermediate), dtype=dt)
        B = np.asarray(np.asarray(cls.tableau_final), dtype=dt)
        s = A.shape[0]
        K = np.asarray(integ.stage_values)                      # (*shape, s): the slopes the integrator holds for this step
        Kf = [fr(K[..., j]) for j in range(s)]
        if out["kind"] == "explicit":
            # the observed calls: calls[0] is the start slope, calls[1..s] are the stage evaluations (argument, time, returned slope)
            st_calls = calls[0:s] if warm else calls[1:1 + s]
            for i, (tc, yc, kc) in enumerate(st_calls):
                nterms = int(np.count_nonzero(A[i, 1:])) + 1
                worst = 0
                for q in range(n):
                    want = y0f[q] + hf * sum(num.frac(A[i, 1 + j]) * Kf[j][q] for j in range(s))
                    cond = abs(y0f[q]) + abs(hf) * sum(abs(num.frac(A[i, 1 + j]) * Kf[j][q]) for j in range(s)) + Fraction(1, 10 ** 30)
                    worst = max(worst, num.units(np.asarray(yc).reshape(-1)[q], want, cond * (2 * nterms + 2), eps))
                targ = num.frac(t0) + hf * num.frac(A[i, 0])
                worst = max(worst, num.units(tc, targ, (abs(num.frac(t0)) + abs(hf * num.frac(A[i, 0])) + Fraction(1, 10 ** 30)) * 3, eps))
                # the slope the integrator holds for stage i is the value the right-hand side returned for that call
                if num.canon_bytes(K[..., i]) != num.canon_bytes(kc):
                    worst = max(worst, num.CAP)
                stage_units.append(worst)
        else:
            for i in range(s):
                arg = [y0f[q] + hf * sum(num.frac(A[i, 1 + j]) * Kf[j][q] for j in range(s)) for q in range(n)]
                targ = num.frac(t0) + hf * num.frac(A[i, 0])
                # the defining equation k_i = f(t + c_i h, y + h sum a_ij k_j), evaluated with the user's f at the (correctly rounded) argument
                ya = np.reshape(np.asarray([float(v) for v in arg], dtype=dt), shape)
                ta = np.asarray(float(targ), dtype=dt)
                ki = fr(f(ta, ya))
                tol_scale = Fraction(tolN) / eps
                u = max(num.units(K[..., i].reshape(-1)[q], ki[q], max(Fraction(1), abs(ki[q])) * (64 + tol_scale), eps) for q in range(n))
                stage_units.append(u)
        inc = [hf * sum(num.frac(B[0, 1 + j]) * Kf[j][q] for j in range(s)) for q in range(n)]
        scale_inc = [abs(hf) * sum(abs(num.frac(B[0, 1 + j]) * Kf[j][q]) for j in range(s)) + Fraction(1, 10 ** 30) for q in range(n)]
        nroundings = 4 * s
    inc_units = max(num.units(a, inc[q], scale_inc[q] * nroundings, eps) for q, a in enumerate(np.asarray(dY).reshape(-1)))
    out.update(observed=True, stageUnits=[int(u) for u in stage_units], incUnits=int(inc_units), converged=converged,
               dTok=bool(num.frac(dT) == hf))
    return out


def trace_scenarios(tier, seed):
    scs = []
    meths = ["BackwardEuler", "CrankNicolson", "LobattoIIIC2", "RadauIIA3", "GaussLegendre4", "RadauIIA5"] + (gen.FIXIMP if tier == "thorough" else [])
    for m in meths:
        for (a, b) in ((0.0, 1.0), (1.0, 0.0), (-2.0, -1.0)):
            for prob, y0 in (("stiffroot", [1.0]), ("relay", [0.3])):
                sc = gen.with_tol(gen.base(m, a, b, 0.25, problem=prob, y0=y0))
                sc["budget"] = 200000
                sc["mayFail"] = True       # stage equations without a solution: the library may give up (it must not accept the step)
                scs.append(sc)
    return gen.number(scs, "C02_")


def check(run, replay=None):
    import desolver as de
    thorough = run.tier == "thorough"
    run.rule = ("read-back: explicit method x dtype x sign of h, two consecutive steps, every call compared exactly; defining equations: "
                "method (all 32) x dtype x h x state shape x random right-hand side; protocol: implicit methods on non-convergent stage "
                "equations; an evaluation is one stage equation / one call; non-trivial = stage with at least one non-zero coefficient; "
                "distinct by (method, dtype, h, shape, seed, stage)")
    expl = [c.__name__ for c in de.integrators.explicit_methods() if not issubclass(c, de.integrators.ExplicitSymplecticIntegrator)]
    rb_jobs = [(n, dtn, hs) for n in expl for dtn in ("float64", "float32", "longdouble") for hs in (1, -1)]
    allm = [c.__name__ for c in de.integrators.explicit_methods() + de.integrators.implicit_methods()]
    st_jobs = []
    for n in allm:
        if n == "RadauIIA19" and not thorough:
            shapes = [(2,)]
        else:
            shapes = [(3,), (2, 2)] + ([(1,), (4,)] if thorough else [])
        cls = getattr(de.integrators, n)
        if issubclass(cls, de.integrators.ExplicitSymplecticIntegrator):
            shapes = [(4,), (2, 2)]
        for dtn in ("float64", "longdouble", "float32"):
            ti = np.asarray(getattr(cls, "tableau_intermediate"))
            implicit = (not issubclass(cls, de.integrators.ExplicitSymplecticIntegrator)) and not all((ti[c, c + 1:] == 0.0).all() for c in range(ti.shape[0]))
            if implicit and dtn != "float64":
                continue
            for hv in (0.125, -0.1) + ((0.03125, -0.4) if thorough else ()):
                for sh in shapes:
                    st_jobs.append((n, dtn, hv, sh, (run.seed * 7919 + len(st_jobs)) % 100000))
                    if not implicit and dtn == "float64":
                        st_jobs.append((n, dtn, hv, sh, (run.seed * 7919 + len(st_jobs)) % 100000, True))
    if replay and isinstance(replay.get("scenario"), dict) and "readback" in replay["scenario"]:
        rb_jobs, st_jobs, scs = [tuple(replay["scenario"]["readback"])], [], []
    elif replay and isinstance(replay.get("scenario"), dict) and "stage" in replay["scenario"]:
        j = replay["scenario"]["stage"]
        rb_jobs, st_jobs, scs = [], [tuple([j[0], j[1], j[2], tuple(j[3]), j[4]] + list(j[5:]))], []
    elif replay:
        rb_jobs, st_jobs, scs = [], [], odecore.replay_scenarios(replay)
    else:
        scs = trace_scenarios(run.tier, run.seed)
        for cfg in ("fixed", "adaptive", "fixedimp", "adaptimp"):
            run.mc("IntegratorMC", "Integrator_" + cfg, workers=2)
        if thorough:
            for cfg, inv in (("dev1", "RetryShrinks"), ("dev2", "NeverReturnRejectedOrUnconverged"), ("dev3", "NeverReturnRejectedOrUnconverged"),
                             ("dev4", "SlopeCacheConsistent")):
                core.model_check("IntegratorMC", "Integrator_" + cfg, expect_violation=inv, workers=2)
    if rb_jobs:
        cases = core.pool_map(readback_job, rb_jobs)
        for k, c in enumerate(cases):
            c["id"] = k
            run.evaluations += len(c["calls"])
            for q in range(len(c["calls"])):
                run.nontrivial.add(("rb", c["name"], c["dtype"], c["hneg"], q))
        run.sample({"readback": {k: (v[:3] if isinstance(v, list) else v) for k, v in cases[0].items()}})
        v = run.judge("RKDataflow", {"cases": cases}, name="C02_readback", shards=8, shard_key="cases")
        run.traces += len(cases)
        for b in v["bad"]:
            c = cases[b["id"]]
            run.violation(b["clause"], "readback %s %s h=%s" % (c["name"], c["dtype"], "-1" if c["hneg"] else "+1"), {"call": b.get("k")},
                          replay={"readback": list(rb_jobs[b["id"]])})
    if st_jobs:
        obs = core.pool_map(stage_job, st_jobs)
        for k, o in enumerate(obs):
            o["id"] = k
            run.evaluations += len(o["stageUnits"]) + 1
            for q in range(len(o["stageUnits"])):
                run.nontrivial.add(("st", o["name"], o["dtype"], o["h"], tuple(o["shape"]), q))
        run.notes["worst_stage_units"] = max([u for o in obs for u in o["stageUnits"]] + [0])
        run.notes["worst_increment_units"] = max([o["incUnits"] for o in obs] + [0])
        run.sample({"stage_obs": obs[0]})
        payload = [{"id": o["id"], "observed": o["observed"], "stageUnits": o["stageUnits"], "incUnits": o["incUnits"], "converged": o["converged"],
                    "dTok": o.get("dTok", False), "kind": o["kind"]} for o in obs]
        v = run.judge("StageJudge", {"cases": payload}, name="C02_stages", shards=8, shard_key="cases")
        run.traces += len(obs)
        for b in v["bad"]:
            o = obs[b["id"]]
            run.violation(b["clause"], "stages %s %s h=%s shape=%s%s" % (o["name"], o["dtype"], o["h"], o["shape"], " second-step" if o.get("warm") else ""),
                          {"stageUnits": o["stageUnits"], "incUnits": o["incUnits"], "converged": o["converged"], "error": o.get("error")},
                          replay={"stage": [o["name"], o["dtype"], o["h"], o["shape"], o["seed"], o.get("warm", False)]})
    if scs:
        traces = odecore.run_traces(scs)
        nfail = 0
        for sc, tr in zip(scs, traces):
            run.evaluations += 1
            if any(e["e"] == "AttemptRet" and e["newton"] == "fail" for e in tr["events"]):
                nfail += 1
                run.nontrivial.add(("tr", str(sc["method"]), sc["t0"], sc["tf"], sc["problem"]))
        run.notes["traces_with_failed_stage_solve"] = nfail
        odecore.judge_traces(run, scs, traces, PREFIX)
    run.assumptions += ["read-back covers the explicit Runge-Kutta methods (splitting and implicit methods are covered by the defining-equation "
                        "check, which uses the slopes the integrator itself holds after the step)",
                        "bounds: 64 units of eps per stage equation (plus the solver tolerance for implicit methods), 4 roundings per stage for the increment"]
