"""C06 -- dense output is a consistent continuous extension of the computed trajectory.

Design level : OdeSystem.tla: PiecesAreSteps (the pieces are exactly the accepted steps, in order) in every reachable state incl.
               after roll-back, landing on a terminal event, continuation and failure, for both directions; deviations
               "keepRolledBackPiece" / "frontInsert" violate it.
Conformance  : every family x direction x problem x history (single run, split, terminal event + continuation, fault + resume) with
               dense output on; OdeTrace.tla tracks the piece list through add/remove and compares it with the recorded steps
               (C06.PieceListTracksLog, PieceSpansItsStep, PiecesAreExactlyTheRecordedSteps, PiecesOrderedAlongTheRun);
               DenseJudge.tla decides, from exact facts sensed on the real solution object: each query at grid, mid and quarter
               points is answered by the piece whose interval contains it (the serving piece is observed, not inferred), recorded
               states are reproduced bit for bit (tolerance for Richardson wrappers), scalar and array queries agree, end slopes
               equal the right-hand side at the piece's end states bit for bit, pieces join, and on rational-solution problems the
               mid-step error stays within a constant of h^4 M4/384 plus the integrator's own error.
"""
from vf import modelreplay, odecore, core, dense_events, gen, scen

LEVEL = "model_checking"
PREFIX = ("C06.",)


def scenarios(tier, seed):
    thorough = tier == "thorough"
    meths = ["RK4", "RK5", "DOPRI45", "RK45CK", "RK87", "ABAS5O6H", "Symplectic Forward Euler", "BackwardEuler", "CrankNicolson", "GaussLegendre4",
             "RadauIIA5", "LobattoIIIC4", {"rich": "RK4", "levels": 3}, {"rich": "Midpoint", "levels": 2}]
    if thorough:
        meths += ["Euler", "Midpoint", "Heun's", "BABS9O7H", "AHE", "RK108", "RK1412", "ImplicitMidpoint", "LobattoIIIA2", "LobattoIIIA4", "LobattoIIIB4",
                  "RadauIA5", "RadauIIA3", {"rich": "RK45CK", "levels": 2}, {"rich": "BackwardEuler", "levels": 3}]
    scs = []
    n = 0
    for m in meths:
        for (a, b) in ((0.0, 2.0), (2.0, 0.0), (-5.0, -3.0), (0.0, -2.0)):
            span = b - a
            P = lambda f: a + span * f      # noqa
            for prob, y0 in (("osc", [1.0, 0.0]), ("pend", [1.0, 0.25]), ("rat", [1.0]), ("tdep", [1.0])):
                if prob in ("rat", "tdep") and a != 0.0:
                    continue
                if prob == "rat" and b < 0:
                    b2 = -0.5        # y = 1/(1+t) blows up at t = -1
                else:
                    b2 = b
                for hist in range(8):
                    n += 1
                    if not thorough and (n + seed) % 3 and hist != 7:
                        continue
                    sc = gen.with_tol(gen.base(m, a, b2, abs(b2 - a) / 8.0, problem=prob, y0=y0, dense=True))
                    if sc.get("rtol") and prob in ("rat", "tdep"):
                        sc["rtol"] = sc["atol"] = max(1e-8, gen.tol_floor(m))     # tight so that the Hermite term dominates, bounded per method
                    Q = lambda f: a + (b2 - a) * f      # noqa
                    if hist == 0:
                        sc["ops"] = [{"op": "integrate"}]
                    elif hist == 1:
                        sc["ops"] = [{"op": "integrate", "t": Q(0.4)}, {"op": "query"}, {"op": "integrate", "t": Q(0.4)}, {"op": "integrate"}]
                    elif hist == 2:
                        sc["ops"] = [{"op": "integrate", "events": [{"kind": "time", "c": Q(0.3)}, {"kind": "time", "c": Q(0.55), "term": True}]},
                                     {"op": "integrate"}]
                    elif hist == 3:
                        sc["ops"] = [{"op": "integrate", "fault": 11 + (n % 17)}, {"op": "integrate"}]
                    elif hist == 5:
                        # the integration turns round twice: the pieces of three passes overlap, the end times are no longer ordered
                        if prob in ("rat", "tdep"):
                            continue
                        sc["ops"] = [{"op": "integrate", "t": Q(0.7)}, {"op": "query"}, {"op": "integrate", "t": Q(0.3)}, {"op": "query"}, {"op": "integrate"}]
                    elif hist == 6:
                        # ... past the configured end, back beyond the start, events monitored on the way back (event handling consults
                        # the dense output of the pass in progress)
                        if prob in ("rat", "tdep"):
                            continue
                        sc["ops"] = [{"op": "integrate"}, {"op": "integrate", "t": Q(0.45), "events": [{"kind": "time", "c": Q(0.8)}, {"kind": "time", "c": Q(0.6), "dir": -1}]},
                                     {"op": "query"}, {"op": "integrate", "t": Q(0.9)}]
                    elif hist == 7:
                        # the system's CONSTANTS are replaced between two calls: the continued call must start from the slope of the
                        # right-hand side with the constants in force (finding f34)
                        if prob != "osc":
                            continue
                        sc["problem"], sc["constants"] = "osck", {"k": 1.0}
                        # all four variants for the first two methods, one (rotating) for the others
                        if m in ("RK4", "RK5") or thorough:
                            for extra in ((n + seed + 1) % 4, (n + seed + 2) % 4, (n + seed + 3) % 4):
                                sx = dict(sc)
                                sx["ops"] = {0: [{"op": "integrate", "t": Q(0.5)}, {"op": "set", "what": "constants", "v": {"k": 3.0}}, {"op": "integrate"}],
                                             1: [{"op": "integrate", "t": Q(0.5)}, {"op": "set", "what": "constants-inplace", "v": {"k": 3.0}}, {"op": "integrate"}],
                                             2: [{"op": "set", "what": "constants-inplace", "v": {"k": 3.0}}, {"op": "integrate", "t": Q(0.5)}, {"op": "integrate"}],
                                             3: [{"op": "integrate", "t": Q(0.5)}, {"op": "set", "what": "constants", "v": {"k": 3.0}}, {"op": "reset"}, {"op": "integrate"}]}[extra]
                                scs.append(sx)
                        var = (n + seed) % 4
                        if var == 0:
                            sc["ops"] = [{"op": "integrate", "t": Q(0.5)}, {"op": "set", "what": "constants", "v": {"k": 3.0}}, {"op": "integrate"}]
                        elif var == 1:      # edited in place
                            sc["ops"] = [{"op": "integrate", "t": Q(0.5)}, {"op": "set", "what": "constants-inplace", "v": {"k": 3.0}}, {"op": "integrate"}]
                        elif var == 2:      # replaced before the first run
                            sc["ops"] = [{"op": "set", "what": "constants-inplace", "v": {"k": 3.0}}, {"op": "integrate", "t": Q(0.5)}, {"op": "integrate"}]
                        else:               # replaced, then reset(): the run starts again with the new constants
                            sc["ops"] = [{"op": "integrate", "t": Q(0.5)}, {"op": "set", "what": "constants", "v": {"k": 3.0}}, {"op": "reset"}, {"op": "integrate"}]
                    else:
                        # an EVENT FUNCTION raises in the middle of the run (event handling is the one place that consults the dense
                        # output while the run is in progress); a user lookup after the failure, then the run is resumed without events
                        if prob in ("rat", "tdep") and (n + seed) % 2:
                            continue
                        sc["ops"] = [{"op": "integrate", "events": [{"kind": "time", "c": Q(0.3)}, {"kind": "time", "c": Q(0.8), "dir": 1}],
                                      "fault": 9 + (n % 23), "faultSite": "event"},
                                     {"op": "query"}, {"op": "integrate"}]
                    scs.append(sc)
    return gen.number(scs, "C06_")


def check(run, replay=None):
    run.rule = ("scenarios = method family x direction/placement x problem (oscillator, pendulum, two rational-solution problems) x history "
                "(single, split with a repeated target, terminal event + continuation, fault + resume, raising event function + lookup + resume), dense output on; every grid point and "
                "3 inner points per step are queried (scalar and array form); non-trivial = scenario with >= 3 pieces; distinct by "
                "(method, span, problem, history)")
    if replay and isinstance(replay.get("scenario"), dict) and "modelreplay" in replay["scenario"]:
        modelreplay.phase(run, [], "C06", ('Pieces', 'Lookup'), replay=replay["scenario"]["modelreplay"])
        return
    if replay:
        scs = odecore.replay_scenarios(replay)
    else:
        run.mc("OdeSystemMC", "OdeSystem_events_q")
        run.mc("OdeSystemMC", "OdeSystem_fixed")
        if run.tier == "thorough":
            for dev in ("KeepRolledBackPiece", "FrontInsert"):
                core.model_check("OdeSystemMC", "OdeSystem_dev" + dev, expect_violation="PiecesAreSteps")
            core.model_check("OdeSystemMC", "OdeSystem_devBisectAfterTurn", expect_violation="QueriesAnsweredByContainingStep")
        scs = scenarios(run.tier, run.seed)
    obs = core.pool_map(dense_events.observe, scs)
    crashed = [o for o in obs if "crash" in o]
    if crashed:
        raise core.MachineryError("sensor crashed on %s:\n%s" % (crashed[0]["id"], crashed[0]["crash"]))
    traces = [o["trace"] for o in obs]
    cases = []
    nq = 0
    for sc, o in zip(scs, obs):
        run.evaluations += 1
        d = o["dense"]
        if d is not None:
            c = dict(d)
            c["id"] = sc["id"]
            cases.append(c)
            nq += len(c["queries"])
            if len(c["pieces"]) >= 3:
                run.nontrivial.add((str(sc["method"]), sc["t0"], sc["tf"], sc["problem"], str([o_["op"] for o_ in sc["ops"]])))
    run.notes["dense_queries"] = nq
    run.sample({"scenario": scs[0], "dense_case": {k: (v[:3] if isinstance(v, list) else v) for k, v in cases[0].items()}})
    odecore.judge_traces(run, scs, traces, PREFIX)
    v = run.judge("DenseJudge", {"cases": cases}, name="C06_dense", shards=8, shard_key="cases")
    run.traces += len(cases)
    byid = {sc["id"]: sc for sc in scs}
    cby = {c["id"]: c for c in cases}
    for b in v["bad"]:
        sc = byid[b["id"]]
        c = cby[b["id"]]
        k = b.get("k", 0)
        detail = {"k": k}
        if "Quer" in b["clause"] or "RecordedState" in b["clause"] or "Scalar" in b["clause"]:
            detail["query"] = c["queries"][k - 1] if 1 <= k <= len(c["queries"]) else None
        elif "Slopes" in b["clause"] or "Join" in b["clause"]:
            detail["piece"] = c["pieces"][k - 1] if 1 <= k <= len(c["pieces"]) else None
        elif "Fourth" in b["clause"]:
            detail["mid"] = c["mids"][k - 1] if 1 <= k <= len(c["mids"]) else None
        run.violation(b["clause"], odecore.describe(sc) + " t0=%s" % sc["t0"], detail, replay=sc)
    if not replay:
        # spec -> code: behaviours of the design model replayed on the real code; the dense pieces must be the model's (one per recorded step, in order) at every API return
        modelreplay.phase(run, ['OdeSystemSim_fixed_nofault'], "C06", ('Pieces', 'Lookup'), keep=None)
    run.assumptions += ["where passes of one system overlap (integrate() calls that turned round) a query must be answered by A step containing it, and a recorded "
                        "state must be reproduced bit for bit only where it is unique (no other piece contains that time except as an end with that state)",
                        "the O(h^4) clause is decided on the two rational-solution problems only; bound constant DenseMidQuotient = 8"]
