"""C03 -- integration covers exactly the requested time span, in order.

Design level : OdeSystem.tla (TLC: all small (t0, tf, dt) sign/direction combinations, up to 3 calls
               incl. reversal and faults): FirstRowIsInitial, SegmentMonotone, EndsAtTarget,
               NoOvershootOnCommit, Progress.
Conformance  : every family x span placement x initial dt x call sequence is executed on the real
               OdeSystem under the zero-hook sensor; OdeTrace.tla validates each trace event by event
               (clauses C03.*).
"""
import random
from vf import modelreplay, gen, odecore, core

LEVEL = "model_checking"
PREFIX = ("C03.",)

MR_KINDS = ("Rows", "RunTerminates", "Dt", "Status", "CallbackCount", "Raised", "RequestedStep", "IntegratorCalls")


def scenarios(tier, seed):
    rnd = random.Random(seed)
    thorough = tier == "thorough"
    methods = ["RK4", "Euler", "RK5", "Euler-Trap", "ABAS5O6H", "Symplectic Forward Euler", "RK45CK", "DOPRI45", "AHE", "RK87",
               "BackwardEuler", "CrankNicolson", "GaussLegendre4", "LobattoIIIC4", "RadauIIA5",
               {"rich": "RK4", "levels": 3}, {"rich": "Midpoint", "levels": 2}]
    if thorough:
        methods += ["Midpoint", "Heun's", "Ralston's", "BABS9O7H", "RK108", "RK1412", "ImplicitMidpoint", "GaussLegendre6",
                    "LobattoIIIA2", "LobattoIIIA4", "LobattoIIIB2", "LobattoIIIB4", "LobattoIIIC2", "RadauIA3", "RadauIA5", "RadauIIA3",
                    {"rich": "RK45CK", "levels": 2}, {"rich": "BackwardEuler", "levels": 4}]
    scs = []
    for m in methods:
        for (a, b) in gen.SPANS:
            span = b - a
            for k, frac in enumerate((1.0 / 7.0, 1.0, 3.0)):
                if not thorough and (hash((str(m), a, b, k)) + seed) % 3 != 0 and frac != 1.0 / 7.0:
                    continue
                dt = abs(span) * frac * (1 if (k + int(a)) % 2 == 0 else -1)     # either sign of dt is given
                sc = gen.with_tol(gen.base(m, a, b, dt))
                kind = (len(scs) + seed) % 5
                mid = a + span * 0.375
                if kind == 0:
                    sc["ops"] = [{"op": "integrate"}]
                elif kind == 1:
                    sc["ops"] = [{"op": "integrate", "t": mid}, {"op": "integrate"}]
                elif kind == 2:
                    sc["ops"] = [{"op": "integrate"}, {"op": "integrate", "t": a + span * 0.25}, {"op": "integrate", "t": b}]
                elif kind == 3:
                    sc["ops"] = [{"op": "integrate", "t": mid}, {"op": "integrate", "t": mid}, {"op": "integrate", "t": a - span * 0.5}]
                else:
                    sc["ops"] = [{"op": "integrate", "t": a + span * rnd.choice([0.1, 0.5, 1.0, 1.5, -0.5])} for _ in range(3)]
                sc["dense"] = (len(scs) % 4 == 0)
                scs.append(sc)
    # growth beyond the pre-allocated buffer: a callback shrinks the step after allocation
    for m in ["RK4", "RK45CK", "ABAS5O6H", "BackwardEuler"] + (["DOPRI45", "CrankNicolson", "Euler"] if thorough else []):
        for (a, b) in ((0.0, 2.0), (2.0, 0.0), (-3.0, -1.0)):
            sc = gen.with_tol(gen.base(m, a, b, abs(b - a) / 2.0))
            sc["ops"] = [{"op": "integrate", "cbs": [{"kind": "setdt", "vals": [abs(b - a) / (48.0 if not thorough else 200.0)]}]}]
            scs.append(sc)
    # spans that are short relative to the magnitude of the times (epoch-like offsets, fine sampling late in a run) and tiny absolute spans
    for m in ["RK4", "RK45CK", "ABAS5O6H", "BackwardEuler"] + (["DOPRI45", "Euler", "RadauIIA5", {"rich": "RK4", "levels": 3}] if thorough else []):
        for (a, b) in ((1.0e4, 1.0e4 + 0.05), (1.0e4 + 0.05, 1.0e4), (-2451545.0, -2451546.0), (0.0, 1.0e-9), (5.0e-10, -5.0e-10)):
            sc = gen.with_tol(gen.base(m, a, b, abs(b - a) / 5.0))
            sc["ops"] = [{"op": "integrate", "t": a + (b - a) * 0.5}, {"op": "integrate"}]
            scs.append(sc)
    # allocation failure: a request for more than 150 rows of storage raises MemoryError; the library falls back to blocks of 100 rows and
    # the run (400 steps) must be what it is without the fault
    for m in ["RK4", "RK45CK", "BackwardEuler"] + (["ABAS5O6H", "DOPRI45"] if thorough else []):
        for (a, b) in ((0.0, 2.0), (1.0, -1.0)):
            sc = gen.with_tol(gen.base(m, a, b, abs(b - a) / 400.0))
            sc["memfault"] = 150
            sc["ops"] = [{"op": "integrate", "t": a + (b - a) * 0.75}, {"op": "integrate"}]
            scs.append(sc)
    # the clamped last step is rejected and shortened by the controller (steep solution just before the target)
    for m in ["RK45CK", "DOPRI45"] + (["RK87", "AHE"] if thorough else []):
        for (a, b) in ((0.0, 1.0), (0.0, -1.0)):
            for tol in (1e-5, 1e-8):
                if m == "AHE" and tol < 1e-6:
                    continue      # second order pair: tens of thousands of steps, beyond the monitor's event budget
                scs.append(gen.base(m, a, b, 0.2, rtol=tol, atol=tol, problem="steeplate", y0=[1.0], budget=1000000))
    # Richardson wrappers of splitting methods choose their next step by halving / doubling inside the wrapper (finding f29: signed
    # comparisons never ended on backward steps)
    for base_m in ["ABAS5O6H"] + (["BABS9O7H"] if thorough else []):
        for (a, b) in ((0.0, 2.0), (2.0, 0.0), (-1.0, -3.0)):
            sc = gen.base({"rich": base_m, "levels": 2}, a, b, 0.05, rtol=1e-6, atol=1e-6, dense=(a > b), budget=400000, wall_limit=60.0)
            sc["ops"] = [{"op": "integrate", "t": a + (b - a) * 0.5}, {"op": "integrate"}]
            scs.append(sc)
    # dtypes
    for dt_ in ("float32", "longdouble"):
        for m in ["RK4", "RK45CK", "ABAS5O6H"] + (["BackwardEuler", "DOPRI45"] if thorough else []):
            for (a, b) in ((0.0, 1.0), (1.0, -1.0), (-5.0, -3.0)):
                sc = gen.with_tol(gen.base(m, a, b, abs(b - a) / 5.0, dtype=dt_))
                if dt_ == "float32" and sc.get("rtol"):
                    sc["rtol"] = sc["atol"] = 1e-4
                sc["ops"] = [{"op": "integrate", "t": a + (b - a) * 0.5}, {"op": "integrate"}]
                scs.append(sc)
    # state shapes
    for shape_y0 in ([[1.0, 0.5], [0.0, -0.25]], [0.7]):
        for m in ["RK4", "RK45CK"]:
            sc = gen.with_tol(gen.base(m, -1.0, 1.0, 0.25, problem="decay", y0=shape_y0))
            scs.append(sc)
    # an indefinite integration (target +-inf) WITHOUT events: it runs until something stops it - here a fault in the right-hand side after
    # a few steps; the recorded grid up to there is an ordinary monotone grid, and the call fails with the injected fault, nothing else
    for m in ["RK4", "RK45CK"] + (["ABAS5O6H", "BackwardEuler"] if thorough else []):
        for (a, sg) in ((0.0, 1.0), (1.0, -1.0)):
            sc = gen.with_tol(gen.base(m, a, a + sg, 0.25))
            sc["ops"] = [{"op": "integrate", "t": sg * float("inf"), "fault": 40}]
            scs.append(sc)
    return gen.number(scs, "C03_")


def check(run, replay=None):
    run.rule = ("scenarios = method family x placement of (t0, tf) on the time axis (10 sign/direction patterns) x initial dt "
                "(span/7, span, 3*span, either sign) x call sequence (single, split, reversal, repeated target, random targets), "
                "plus buffer growth, dtypes, shapes; non-trivial = trace with >= 2 accepted steps in a direction or placement "
                "other than a plain forward run from 0; distinct by (family, direction, sign pattern, op sequence)")
    if replay and isinstance(replay.get("scenario"), dict) and "modelreplay" in replay["scenario"]:
        modelreplay.phase(run, [], "C03", MR_KINDS, replay=replay["scenario"]["modelreplay"])
        return
    if replay:
        scs = odecore.replay_scenarios(replay)
    else:
        run.mc("OdeSystemMC", "OdeSystem_fixed")
        run.mc("OdeSystemMC", "OdeSystem_events_q")
        if run.tier == "thorough":
            run.mc("OdeSystemMC", "OdeSystem_events")
            run.mc("OdeSystemMC", "OdeSystem_adaptive_q", timeout=900)
        scs = scenarios(run.tier, run.seed)
    traces = odecore.run_traces(scs)
    for sc, tr in zip(scs, traces):
        run.evaluations += 1
        commits = sum(1 for e in tr["events"] if e["e"] == "Counter" and e["new"] == e["old"] + 1)
        if commits >= 2 and not (sc["t0"] == 0.0 and sc["tf"] > 0 and len(sc["ops"]) == 1):
            run.nontrivial.add((tr["family"], sc["tf"] > sc["t0"], sc["t0"] < 0, sc["tf"] < 0, len(sc["ops"]), sc.get("dtype")))
    run.notes["allocation_faults_injected"] = sum(int(tr.get("memFaults", 0)) for tr in traces)
    if not replay and run.notes["allocation_faults_injected"] == 0:
        raise core.MachineryError("the allocation-fault scenarios never hit the injected MemoryError")
    k = min(1, len(scs) - 1)
    run.sample({"scenario": scs[k], "trace_head": traces[k]["events"][:12]})
    odecore.judge_traces(run, scs, traces, PREFIX)
    if not replay:
        # spec -> code: behaviours of the design model (no faults; events, callbacks, reversals, resets) replayed on the real code; the
        # recorded times, the step in force and the status must be the model's at every API return
        modelreplay.phase(run, ["OdeSystemSim_fixed_nofault", "OdeSystemSim_adaptive_nofault"], "C03", MR_KINDS)
    run.assumptions += ["the sensor's interning is exact (fractions.Fraction); ranks preserve order and equality",
                        "'a few rounding units' = UlpFew = 4 ulp of the working dtype (spec/Bounds.tla)",
                        "float16 and the torch backend are not exercised"]
