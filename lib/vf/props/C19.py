"""C19 -- trajectory lookup by index and by time returns the right sample.

Design level : LookupIdx.tla: TLC checks the reference operators Lookup!IndexInt / Lookup!NearestRows on every increasing and
               decreasing grid of the small scope (totality of integer indexing, nearest set minimal / non-empty / at most a
               tie, mirror symmetry between forward and backward grids).
Conformance  : recorded grids are produced on the real OdeSystem (uniform, non-uniform via a dt-assigning callback, adaptive,
               forward, backward, against the configured span, after continuation; dense on/off); every integer index in [-len-2, len+2], iteration, len,
               every query time on the refined grid and outside the range, and the spanning time slice are executed;
               GetItemJudge.tla decides each result against the reference operators (distances are exact rationals, ranked).
"""
import numpy as np
from vf import gen, core, scen, num, odecore

LEVEL = "model_checking"


def scenarios(tier, seed):
    thorough = tier == "thorough"
    scs = []
    meths = ["RK4", "RK45CK", "ABAS5O6H", "BackwardEuler"] + (["Euler", "DOPRI45", "RadauIIA5", {"rich": "RK4", "levels": 2}] if thorough else [])
    for m in meths:
        for (a, b) in ((0.0, 1.0), (1.0, 0.0), (-2.0, -1.0), (-1.0, -2.0), (-0.5, 0.5), (0.5, -0.5)):
            span = b - a
            for kind in range(6):
                for dense in (False, True):
                    if not thorough and (len(scs) + seed) % 2 and kind in (1, 2):
                        pass
                    sc = gen.with_tol(gen.base(m, a, b, abs(span) / 4.0, dense=dense))
                    # a callback looks the trajectory up while the integration is in progress (after the 1st / 3rd step)
                    probe = [{"kind": "hook", "name": "c19probe", "at": 1 + 2 * (len(scs) % 2), "tag": "cb", "dense": dense}]
                    if kind == 0:
                        sc["ops"] = [{"op": "integrate", "cbs": probe}]
                    elif kind == 1:       # non-uniform grid: a callback assigns dyadic steps
                        sc["ops"] = [{"op": "integrate", "cbs": [{"kind": "setdt", "vals": [abs(span) / 8.0, abs(span) / 16.0, abs(span) / 4.0, abs(span) / 32.0]}] + probe}]
                    elif kind == 2:       # continuation
                        sc["ops"] = [{"op": "integrate", "t": a + span * 0.375}, {"op": "query"}, {"op": "integrate"}]
                    elif kind == 3:       # a single step
                        sc["dt"] = abs(span)
                        sc["ops"] = [{"op": "integrate"}]
                    elif kind == 5:       # events are monitored: the system keeps step interpolants for root finding whether or not dense output is kept
                        sc["ops"] = [{"op": "integrate", "events": [{"kind": "time", "c": a + span * 0.4375}], "cbs": probe}]
                    else:                 # the run goes AGAINST the configured span: the grid's direction is the run's, not (t0, tf)'s
                        sc["ops"] = [{"op": "integrate", "t": a - span * 0.75, "cbs": probe}]
                    scs.append(sc)
    return gen.number(scs, "C19_")


_PROBED = {}


def _probe(system, spec):
    """Callback hook: the same observations on the system while an integration is in progress (storage pre-allocated beyond the rows)."""
    _PROBED[spec["tag"]] = _observe_system(system, bool(spec.get("dense")), with_slices=False)


scen.HOOKS["c19probe"] = _probe


def observe(sc):
    _PROBED.clear()
    r = scen.run_plain(sc)
    out = _observe_system(r["system"], bool(sc.get("dense")))
    out.update({"id": sc["id"], "ok": r["ok"]})
    res = [out]
    for tag, o in sorted(_PROBED.items()):
        o.update({"id": sc["id"] + "@" + tag, "ok": True})
        res.append(o)
    return res


def _observe_system(system, dense, with_slices=True):
    t = np.array(system.t, copy=True)
    y = np.array(system.y, copy=True)
    n = len(t)
    dt = t.dtype
    key = {}
    for k in range(n):
        key.setdefault((num.frac(t[k]), num.canon_bytes(y[k])), k)

    def row_of(st):
        return key.get((num.frac(st.t), num.canon_bytes(st.y)), -1)
    ints = []
    for i in range(-n - 2, n + 3):
        try:
            st = system[i]
            ints.append({"i": i, "ok": "ok", "row": row_of(st)})
        except IndexError:
            ints.append({"i": i, "ok": "IndexError", "row": -1})
        except Exception as e:     # noqa
            ints.append({"i": i, "ok": type(e).__name__, "row": -1})
    it = []
    try:
        for st in system:
            it.append(row_of(st))
            if len(it) > n + 3:
                break
    except Exception:     # noqa
        it.append(-2)
    # query times: refined grid (recorded times, midpoints, quarter points) and outside the range
    qs = []
    for k in range(n):
        qs.append(t[k])
        if k + 1 < n:
            for fr in (0.5, 0.25, 0.75, 0.4375):
                qs.append(t[k] + (t[k + 1] - t[k]) * fr)
    lo, hi = min(t), max(t)
    qs += [lo - 0.3, hi + 0.7, lo - 1e-9, hi + 1e-9]
    times = []
    for q in qs:
        q = np.asarray(q, dtype=dt)
        try:
            st = system[q]
        except Exception as e:     # noqa
            times.append({"dists": [0] * n, "row": -3, "dense": dense, "denseExact": False, "tExact": False})
            continue
        d = [abs(num.frac(tt) - num.frac(q)) for tt in t]
        rk = {v: i for i, v in enumerate(sorted(set(d)))}
        rec = {"dists": [rk[x] for x in d], "row": row_of(st), "dense": dense, "denseExact": True, "tExact": True}
        if dense:
            rec["denseExact"] = bool(num.canon_bytes(st.y) == num.canon_bytes(system.sol(q)))
            rec["tExact"] = bool(num.frac(st.t) == num.frac(q))
        times.append(rec)
    if dense and times:
        try:
            arr = system[np.array([np.asarray(q, dtype=dt) for q in qs], dtype=dt)]
            for k, q in enumerate(qs):
                if times[k]["row"] != -3 and num.canon_bytes(arr.y[k]) != num.canon_bytes(system.sol(np.asarray(q, dtype=dt))):
                    times[k]["denseExact"] = False
        except Exception:     # noqa
            for rec in times:
                rec["denseExact"] = False
    slices = []
    if not with_slices:
        return {"n": n, "len": len(system), "ints": ints, "iter": it, "times": times, "slices": [{"whole": True}]}
    try:
        sl = system[t[0]:t[-1]]
        slices.append({"whole": bool(len(sl.t) == n and np.array_equal(sl.t, t) and np.array_equal(sl.y, y))})
        sl2 = system[:]
        slices.append({"whole": bool(len(sl2.t) == n and np.array_equal(sl2.t, t))})
    except Exception:     # noqa
        slices.append({"whole": False})
    return {"n": n, "len": len(system), "ints": ints, "iter": it, "times": times, "slices": slices}


def check(run, replay=None):
    run.rule = ("grids from real runs: method x span (6 sign/direction patterns) x {uniform, non-uniform by callback, continuation, single step} x "
                "dense; per grid all integer indices in [-len-2, len+2], iteration, len, ~5 query times per step plus 4 outside, spanning "
                "slices; non-trivial = grid with >= 3 rows; distinct by (method, span, kind, dense)")
    if replay:
        scs = odecore.replay_scenarios(replay)
    else:
        run.mc("LookupIdx", workers=4)
        scs = scenarios(run.tier, run.seed)
    nested = core.pool_map(observe, scs)
    obs = [o for group in nested for o in group]
    scs_of = {o["id"]: sc for sc, group in zip(scs, nested) for o in group}
    for o in obs:
        sc = scs_of[o["id"]]
        run.evaluations += len(o["ints"]) + len(o["times"]) + len(o["slices"]) + 1
        if o["n"] >= 3:
            run.nontrivial.add((str(sc["method"]), sc["t0"], sc["tf"], str(sc["ops"]), sc["dense"]))
    run.sample({"scenario": scs[0], "obs": {k: (v[:4] if isinstance(v, list) else v) for k, v in obs[0].items()}})
    v = run.judge("GetItemJudge", {"cases": obs}, name="C19_getitem", shards=8, shard_key="cases")
    run.traces += len(obs)
    byid = scs_of
    oby = {o["id"]: o for o in obs}
    for b in v["bad"]:
        sc = byid[b["id"]]
        o = oby[b["id"]]
        k = b.get("k", 0)
        detail = {"k": k, "n": o["n"]}
        if "Integer" in b["clause"] and 1 <= k <= len(o["ints"]):
            detail["obs"] = o["ints"][k - 1]
        elif "Time" in b["clause"] and 1 <= k <= len(o["times"]):
            detail["obs"] = o["times"][k - 1]
        run.violation(b["clause"], odecore.describe(sc) + " t0=%s" % sc["t0"], detail, replay=sc)
    run.exhaustive = False
    run.assumptions += ["'nearest in time' ties may be answered by either sample", "time slices are taken along the direction of the run"]
