"""C05 -- adaptive integration keeps the global error proportional to the tolerances.

Design level : OdeSystem.tla with ADAPTIVE = TRUE (the integrator may return a shorter step and proposes the next one):
               NoOvershootOnCommit, Progress, SegmentMonotone under every such choice.
Conformance  : (T) traces of the 9 embedded pairs and Richardson wrappers, both directions, initial dt from 1e-4 to 3x the
               span, tolerances 1e-3..1e-11: the attempt protocol of every integrator call is validated by OdeTrace.tla
               (C05.RetryShrinks, C05.RejectedAttemptNeverReturned, C05.ReturnsLastAttempt, C05.AcceptedStepDropped, ...);
               a problem that is undefined beyond |t| = 1/2 must end in the integration-failure error caused by
               FailedToMeetTolerances with only finite states recorded;
               (G) accuracy on problems with rational exact solutions defined in spec/Accuracy.tla: TLC supplies y(T) and the
               amplification bound, the sensor reports the error in units of atol + rtol|y|, Accuracy.tla decides.
"""
from fractions import Fraction
import math
import numpy as np
from vf import integreplay, gen, odecore, core, scen, num

LEVEL = "model_checking"
PREFIX = ("C05.",)

PAIRS = ["RK45CK", "DOPRI45", "AHE", "RK87", "RK108", "RK1412", "LobattoIIIC4", "RadauIIA5", "RadauIIA19"]


def scenarios(tier, seed):
    thorough = tier == "thorough"
    # (a wrapper of an embedded PAIR: the pair keeps shortening steps on its own inside the wrapper, which must then extrapolate over the
    # step actually taken - finding f32)
    meths = ["RK45CK", "DOPRI45", "AHE", "RK87", "LobattoIIIC4", "RadauIIA5", {"rich": "RK4", "levels": 3}, {"rich": "Midpoint", "levels": 4},
             {"rich": "RK45CK", "levels": 3}]
    if thorough:
        meths += ["RK108", "RK1412", {"rich": "RK45CK", "levels": 2}, {"rich": "BackwardEuler", "levels": 3}, {"rich": "DOPRI45", "levels": 4}]
    scs = []
    n = 0
    for m in meths:
        for (a, b) in ((0.0, 2.0), (2.0, 0.0), (-5.0, -3.0), (1.0, -1.0)):
            for dt0 in (1e-4, 0.3, 3.0 * abs(b - a)):
                for tol in ((1e-3, 1e-6, 1e-9) if not thorough else (1e-3, 1e-5, 1e-7, 1e-9, 1e-11)):
                    if m == "AHE" and tol < 1e-6:
                        continue      # second order pair: too many steps for a routine scenario
                    if dt0 == 1e-4 and tol > 1e-6 and not thorough:
                        continue
                    n += 1
                    if not thorough and (n + seed) % 2:
                        continue
                    sc = gen.base(m, a, b, dt0, rtol=tol, atol=tol, problem=("pend" if len(scs) % 3 == 0 else "osc"), y0=[1.0, 0.25])
                    scs.append(sc)
    # the controller has grown the step when the solution turns steep just before the target: the clamped last step is rejected and shortened
    for m in ["RK45CK", "DOPRI45", "RK87"] + (["AHE", "RK108"] if thorough else []):
        for (a, b) in ((0.0, 1.0), (0.0, -1.0), (0.25, 1.0)):
            for tol in (1e-5, 1e-8):
                if m == "AHE" and tol < 1e-6:
                    continue      # second order pair: tens of thousands of steps, beyond the monitor's event budget
                scs.append(gen.base(m, a, b, 0.2, rtol=tol, atol=tol, problem="steeplate", y0=[1.0], budget=1000000))
    # the same with an implicit pair: the stage solve fails on the steep part while the error estimate alone would allow a longer step
    # (the retry must still be shorter than the attempt that failed - finding f24)
    for m in ["RadauIIA5"] + (["LobattoIIIC4"] if thorough else []):
        for (a, b) in ((0.0, 1.0), (0.0, -1.0)):
            scs.append(gen.base(m, a, b, 0.2, rtol=1e-5, atol=1e-5, problem="steeplate", y0=[1.0], budget=1000000))
    # tolerances that cannot be met: the right-hand side is undefined beyond |t| = 1/2
    for m in ["RK45CK", "DOPRI45", "RK87", "RadauIIA5", "AHE"] + (["RK108", "LobattoIIIC4"] if thorough else []):
        for (a, b) in ((0.0, 1.0), (0.25, -1.0)):
            sc = gen.base(m, a, b, 0.125, rtol=1e-6, atol=1e-6, problem="nanwall", y0=[1.0])
            sc["expectFail"] = [0]
            scs.append(sc)
    return gen.number(scs, "C05_")


def _richardson_job(job):
    """One real call of a Richardson wrapper with the call of every basis integrator observed (spec/RichardsonStep.tla): which span did
    each level integrate in the wrapper's last attempt, and which step did the wrapper report?"""
    import desolver as de
    from desolver.integrators import generate_richardson_integrator
    base, lev, h, prob, tol = job
    out = {"base": base, "levels": lev, "h": h, "prob": prob, "tol": tol, "ran": False, "raised": False, "gap": [], "longer": False, "sameSign": True, "shortened": False}
    try:
        if prob == "pendulum":
            f = lambda t, y: np.array([y[1], -100.0 * np.sin(y[0])])      # noqa
            y0 = np.array([1.0, 0.0])
        else:
            f = lambda t, y: np.array([-50.0 * y[0] + np.sin(3 * t), y[0] - y[1] ** 3])      # noqa
            y0 = np.array([0.5, 1.0])
        cls = generate_richardson_integrator(de.available_methods(False)[base], richardson_iter=lev)
        integ = cls((2,), dtype=np.float64, rtol=tol, atol=tol)
        # an explicit basis takes the step it is given in EVERY attempt of the wrapper (its own adaptation is switched off); an implicit one
        # may shorten a sub-step after a failed stage solve - such an attempt is rejected by the wrapper - so only the attempt handed back counts
        explicit_base = not bool(integ.basis_integrators[0].is_implicit)
        logs = []
        for m, b in enumerate(integ.basis_integrators):
            orig = type(b).__call__

            def call(self, rhs_, t, y, c, dt, _m=m, _o=orig):
                res = _o(self, rhs_, t, y, c, dt)
                logs.append((_m, dt, res[1][0]))
                return res
            b.__class__ = type("Observed" + type(b).__name__, (type(b),), {"__call__": call})
        r = integ(de.DiffRHS(f), np.float64(0.0), y0, {}, np.float64(h))
        dT = r[1][0]
        attempts = []
        for (m, req, ret) in logs:
            if m == 0:
                attempts.append({})
            attempts[-1].setdefault(m, []).append((req, ret))
        last = attempts[-1]
        eps = Fraction(num.eps_of(np.dtype("float64")))

        def units(a, b, pieces):
            return int(min(num.CAP, math.ceil(abs(a - b) / (eps * pieces * max(Fraction(1, 10 ** 6), abs(b))))))
        # the attempt that is handed back: every level against the step reported; every attempt (also the ones the wrapper itself rejects
        # and retries - their error estimate decides the retry): every level against what level 0 took in that attempt
        gaps = []
        for m in sorted(last):
            tot = sum((num.frac(x[1]) for x in last[m]), Fraction(0))
            worst = units(tot, num.frac(dT), max(1, len(last[m])))
            for at in (attempts if explicit_base else []):
                if m in at and 0 in at:
                    t0_ = sum((num.frac(x[1]) for x in at[0]), Fraction(0))
                    tm_ = sum((num.frac(x[1]) for x in at[m]), Fraction(0))
                    worst = max(worst, units(tm_, t0_, max(1, len(at[m]))))
            gaps.append(worst)
        out.update(ran=True, gap=gaps, longer=bool(abs(num.frac(dT)) > abs(Fraction(h))), sameSign=bool((float(dT) > 0) == (h > 0)),
                   shortened=bool(abs(num.frac(last[0][0][1])) < abs(num.frac(last[0][0][0]))), attempts=len(attempts))
    except de.exception_types.FailedToMeetTolerances as e:
        out["raised"] = True        # the wrapper gave up on this step: nothing was accepted, nothing to observe
        out["error"] = "FailedToMeetTolerances: %s" % str(e)[:80]
    except Exception as e:     # noqa
        out["error"] = "%s: %s" % (type(e).__name__, str(e)[:120])
    return out


def _richardson_short_job(job):
    """A wrapper whose basis integrator SHORTENS the first step it is asked for (as an implicit method does after a failed stage solve), on
    y' = c with tolerances that accept anything: every level's increment is c x (the span it integrated), so the returned increment equals
    c x (the returned step) exactly iff all levels integrated the step that is reported (spec/RichardsonStep.tla; deviation signedComparison)."""
    import desolver as de
    from desolver.integrators import generate_richardson_integrator
    base, lev, h = job
    out = {"base": base + "+shortening", "levels": lev, "h": h, "prob": "constant", "tol": 1e30, "ran": False, "raised": False, "gap": [], "longer": False,
           "sameSign": True, "shortened": True}
    try:
        cls0 = de.available_methods(False)[base]
        armed = [True]

        class Shortening(cls0):
            def __call__(self, rhs_, t, y, c, dt):
                if armed[0]:
                    armed[0] = False
                    return super().__call__(rhs_, t, y, c, dt * np.asarray(0.75, dtype=np.float64))      # 0.75: exact in binary
                return super().__call__(rhs_, t, y, c, dt)
        Shortening.__name__ = cls0.__name__
        cls = generate_richardson_integrator(Shortening, richardson_iter=lev)
        integ = cls((2,), dtype=np.float64, rtol=1e30, atol=1e30)
        cvec = np.array([3.0, -0.5])
        r = integ(de.DiffRHS(lambda t, y: cvec + 0.0 * y), np.float64(1.0), np.array([0.25, 2.0]), {}, np.float64(h))
        dT, dY = r[1]
        eps = Fraction(num.eps_of(np.dtype("float64")))
        g_state = max(int(min(num.CAP, math.ceil(abs(num.frac(dY[k]) - num.frac(cvec[k]) * num.frac(dT)) / (eps * 64 * abs(num.frac(cvec[k]) * num.frac(dT)))))) for k in range(2))
        g_adopt = int(min(num.CAP, math.ceil(abs(num.frac(dT) - Fraction(3, 4) * Fraction(h)) / (eps * abs(Fraction(h))))))
        # one entry per level so that the judge's completeness clause applies: the state gap for every level, the adoption gap first
        out.update(ran=True, gap=[max(g_adopt, g_state)] + [g_state] * (lev - 1), longer=bool(abs(num.frac(dT)) > abs(Fraction(h))), sameSign=bool((float(dT) > 0) == (h > 0)))
    except Exception as e:     # noqa
        out["error"] = "%s: %s" % (type(e).__name__, str(e)[:120])
    return out


def _richardson_phase(run):
    thorough = run.tier == "thorough"
    run.mc("RichardsonStep", workers=2)
    if thorough:
        core.model_check("RichardsonStep", "RichardsonStep_devSigned", expect_violation="AllLevelsIntegrateTheStepReported", workers=2)
    jobs = []
    for base, levs in (("RK45CK", (2, 3, 4)), ("DOPRI45", (3,)), ("RK87", (3,)), ("RadauIIA5", (2,)), ("RK4", (3,)), ("BackwardEuler", (3,))) + \
            ((("RK108", (2, 3)), ("LobattoIIIC4", (2,)), ("AHE", (4,)), ("CrankNicolson", (3,))) if thorough else ()):
        for lev in levs:
            for h in (0.5, -0.5, 2.0, -2.0, 0.001, -0.001):
                for prob in ("pendulum", "stiffish"):
                    jobs.append((base, lev, h, prob, 1e-10 if base not in ("BackwardEuler", "AHE") else 1e-4))
    sjobs = [(b, lev, h) for b in ("RK4", "Midpoint") + (("Euler", "RK5") if thorough else ()) for lev in (2, 3, 5) for h in (0.5, -0.5, 2.0, -2.0)]
    obs = core.pool_map(_richardson_job, jobs) + core.pool_map(_richardson_short_job, sjobs)
    for k, o in enumerate(obs):
        o["id"] = k
        run.evaluations += 1
        if o.get("shortened"):
            run.nontrivial.add(("richardson-shortened", o["base"], o["levels"], o["h"], o["prob"]))
    run.notes["richardson_calls_with_a_shortened_first_level"] = sum(1 for o in obs if o.get("shortened"))
    run.notes["richardson_calls_that_gave_up"] = sum(1 for o in obs if o.get("raised"))
    v = run.judge("RichardsonJudge", {"cases": [{k: o[k] for k in ("id", "ran", "raised", "gap", "longer", "sameSign", "levels")} for o in obs]}, name="C05_richardson")
    run.traces += len(obs)
    for b in v["bad"]:
        o = obs[b["id"]]
        run.violation(b["clause"], "richardson(%s,%d) h=%s %s tol=%g" % (o["base"], o["levels"], o["h"], o["prob"], o["tol"]),
                      {k: o.get(k) for k in ("gap", "longer", "sameSign", "shortened", "attempts", "error")}, replay=None)


def _accuracy_job(job):
    case, m, tol, dt0 = job[:4]
    via_setters = len(job) > 4 and bool(job[4])
    T = case["k"] / 8.0
    rtol = atol = tol
    y0 = [1.0]
    if case["problem"] == "tdepsmall":
        # unequal tolerances on a small-amplitude solution: the relative part must be the one that scales with |y|
        rtol, atol = tol, tol * 1e-9
        y0 = [2.0 ** -20]
    if case["problem"] == "pair":
        rtol, atol = tol, tol * 1e-9
        y0 = [3.0, 1.0, 2.0 ** -20]
    if case["problem"] == "decay":
        rtol, atol = tol, tol * 1e-26        # almost purely relative: the tolerance must follow the solution down 17 orders of magnitude
    sc = gen.base(m, 0.0, T, dt0, rtol=rtol, atol=atol, problem=case["problem"], y0=y0)
    rtol, atol = sc["rtol"], sc["atol"]      # gen.base bounds the tolerance per method
    if via_setters:
        # the system is built with loose tolerances; the ones the run must honour are assigned through the rtol / atol setters afterwards
        sc["rtol"], sc["atol"] = 1e-2, 1e-2
        sc["ops"] = [{"op": "set", "what": "rtol", "v": rtol}, {"op": "set", "what": "atol", "v": atol}, {"op": "integrate"}]
    try:
        r = scen.run_plain(sc)
    except Exception as e:   # noqa
        r = {"ok": False, "t": [0.0], "y": [[float("nan")]]}
    exacts = [Fraction(c["num"], c["den"]) for c in case["comps"]]
    ok = bool(r["ok"])
    if case["problem"] == "decay":
        # the specification encloses the base b = exp(-1/8): y(T) lies in [lo^k, hi^k]; the error is the distance to that interval
        lo, hi = exacts[0] ** case["k"], exacts[1] ** case["k"]
        y = r["y"][-1][0] if ok else float("nan")
        if ok and np.isfinite(y):
            fy = num.frac(y)
            err = max(Fraction(0), lo - fy, fy - hi)
            eu = int(min(num.CAP, math.ceil(err / (Fraction(atol) + Fraction(rtol) * lo))))
            endu = num.gap_units(r["t"][-1], T, [T], np.float64)
        else:
            eu, endu = num.CAP, num.CAP
        return {"problem": case["problem"], "k": case["k"], "num": case["num"], "den": case["den"], "comps": case["comps"], "ok": ok, "errUnits": eu,
                "endUnits": endu, "method": str(m) + (" tolerances-by-setter" if via_setters else ""), "tol": tol, "dt0": dt0, "steps": len(r["t"]) - 1}
    ys = [r["y"][-1][i] for i in range(len(exacts))] if ok else [float("nan")]
    if ok and all(np.isfinite(y) for y in ys):
        # the worst component, each in units of its own (atol + rtol |y_i|)
        eu = 0
        for y, exact in zip(ys, exacts):
            err = abs(num.frac(y) - exact)
            eu = max(eu, int(min(num.CAP, math.ceil(err / (Fraction(atol) + Fraction(rtol) * abs(exact))))))
        endu = num.gap_units(r["t"][-1], T, [T], np.float64)
    else:
        eu, endu = num.CAP, num.CAP
    return {"problem": case["problem"], "k": case["k"], "num": case["num"], "den": case["den"], "comps": case["comps"], "ok": ok, "errUnits": eu,
            "endUnits": endu, "method": str(m) + (" tolerances-by-setter" if via_setters else ""), "tol": tol, "dt0": dt0, "steps": len(r["t"]) - 1}


def check(run, replay=None):
    thorough = run.tier == "thorough"
    run.rule = ("traces: adaptive method x span (both directions, negative times) x initial dt (1e-4, 0.3, 3*span) x tolerance; "
                "accuracy: (problem, T) cases generated by TLC x method x tolerance x initial dt; non-trivial = trace with a "
                "rejected attempt / accuracy case with >= 3 steps; distinct by (method, span, dt0, tol)")
    if replay and isinstance(replay.get("scenario"), dict) and "integreplay" in replay["scenario"]:
        integreplay.phase(run, "C05", ('AttemptedSteps', 'Outcome', 'ReturnedStep', 'ProposedStep', 'ControllerCalls', 'CachedSlopeBelongsToNewState'), replay=replay["scenario"]["integreplay"])
        return
    if replay:
        sc = replay.get("scenario")
        if isinstance(sc, dict) and "accuracy" in sc:
            scs, jobs = [], [tuple(sc["accuracy"])]
        else:
            scs, jobs = odecore.replay_scenarios(replay), []
    else:
        run.mc("OdeSystemMC", "OdeSystem_adaptive_q", timeout=900)
        run.mc("IntegratorMC", "Integrator_adaptive", workers=2)
        run.mc("IntegratorMC", "Integrator_adaptimp", workers=2)
        if thorough:
            core.model_check("IntegratorMC", "Integrator_dev1", expect_violation="RetryShrinks", workers=2)
            core.model_check("IntegratorMC", "Integrator_dev2", expect_violation="NeverReturnRejectedOrUnconverged", workers=2)
            core.model_check("OdeSystemMC", "OdeSystem_devRecordStepTooShort", expect_violation="SegmentMonotone")
        scs = scenarios(run.tier, run.seed)
        gen_cases = run.generate("Accuracy")["cases"]
        meths = ["RK45CK", "DOPRI45", "RK87", "LobattoIIIC4", "RadauIIA5", {"rich": "RK4", "levels": 3}, {"rich": "RK45CK", "levels": 3}]
        if thorough:
            meths += ["AHE", "RK108", "RK1412", {"rich": "Midpoint", "levels": 4}, {"rich": "RK45CK", "levels": 2}, {"rich": "DOPRI45", "levels": 4}]
        jobs = []
        for c in gen_cases:
            for m in meths:
                for tol in ((1e-3, 1e-6, 1e-9) if not thorough else (1e-3, 1e-5, 1e-7, 1e-9, 1e-11)):
                    if tol < gen.tol_floor(m) or (c["problem"] == "decay" and tol < 1e-5):
                        continue
                    for dt0 in ((1e-4, 0.25, 5.0) if thorough else ((0.25, 5.0) if tol > 1e-8 else (1e-4, 0.25))):
                        jobs.append((c, m, tol, dt0))
            # tolerances assigned through the setters after the method was chosen (an embedded pair re-reads them every step; a
            # Richardson wrapper copies them when it is built)
            for m in ("RK45CK", {"rich": "RK4", "levels": 3}) + (({"rich": "RK45CK", "levels": 2}, "RadauIIA5") if thorough else ()):
                if c["problem"] in ("rat", "pair") and c["k"] in (8, -4):
                    jobs.append((c, m, 1e-8, 0.25, True))
            if not thorough:
                # a first attempt of half the span overflows in the stages of the 35-stage pair: the retries must recover (finding f25)
                jobs.append((c, "RK1412", 1e-6, 5.0))
    if scs:
        traces = odecore.run_traces(scs)
        for sc, tr in zip(scs, traces):
            run.evaluations += 1
            rej = sum(1 for e in tr["events"] if e["e"] == "Controller" and e["redo"])
            if rej:
                run.nontrivial.add((str(sc["method"]), sc["t0"], sc["tf"], sc["dt"], sc["rtol"]))
        run.notes["traces_with_rejected_attempt"] = len(run.nontrivial)
        run.sample({"scenario": scs[0]})
        odecore.judge_traces(run, scs, traces, PREFIX)
    if not replay:
        _richardson_phase(run)
    if jobs:
        obs = core.pool_map(_accuracy_job, jobs)
        for k, o in enumerate(obs):
            o["id"] = k
            run.evaluations += 1
            if o["steps"] >= 3:
                run.nontrivial.add(("acc", o["method"], o["problem"], o["k"], o["tol"], o["dt0"]))
        run.sample({"accuracy_obs": obs[0]})
        run.notes["max_err_units"] = max(o["errUnits"] for o in obs)
        v = run.judge("Accuracy", {"cases": obs}, name="C05_accuracy")
        run.traces += len(obs)
        for b in v["bad"]:
            o = obs[b["id"]]
            run.violation(b["clause"], "accuracy %s %s T=%s/8 tol=%g dt0=%g" % (o["method"], o["problem"], o["k"], o["tol"], o["dt0"]),
                          {"errUnits": o["errUnits"], "steps": o["steps"], "ok": o["ok"]}, replay={"accuracy": list(jobs[b["id"]])})
    if not replay:
        # spec -> code: behaviours of Integrator.tla (attempts, the controller's verdicts, retries, giving up, faults) replayed on real
        # integrator objects through the public adaptation_fn hook
        integreplay.phase(run, "C05", ('AttemptedSteps', 'Outcome', 'ReturnedStep', 'ProposedStep', 'ControllerCalls', 'CachedSlopeBelongsToNewState'))
    run.assumptions += ["accuracy is decided on problems with rational solutions only (the specification cannot supply exp or sin): "
                        "'modest constant' = ModestK = 10 units of (atol + rtol|y|) times the amplification bound of the problem",
                        "random linear systems with exponential solutions are not covered (DESIGN.md section 10); the coupled "
                        "three-component problem 'pair' (magnitudes 3, 1, 2^-20) stands in for multi-component systems"]
