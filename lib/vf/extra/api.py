"""Growth beyond the listed properties: the small public operations of OdeSystem.

spec -> code : SystemApi.tla is model-checked (every operation sequence up to MAXLEN, four invariants/action properties) and
               generates every sequence up to GENLEN with the expected outcome and projected state after each operation; each is
               replayed on a fresh real OdeSystem.
code -> spec : the recorded (operation, outcome, projected state) traces - the generated ones plus random longer ones over a wider
               tick range - are validated by ApiJudge.tla, which steps ApiModel!Apply along each trace (one TLC state per call).
"""
import random
import warnings
import numpy as np
from vf import core

ALIASES = {"RK4": "RK4", "Explicit RK4": "Explicit RK4", "Runge-Kutta 4": "Runge-Kutta 4", "Euler": "Euler", "bogus": "bogus"}


def _fresh():
    import desolver as de

    def f(t, y):
        return -y
    s = de.OdeSystem(f, y0=np.array([1.0]), dense_output=False, t=(0.0, 2.0), dt=0.5)
    s.set_method("RK4")
    return s


def _project(s):
    st = s.integration_status
    status = "notrun" if st == "Integration has not been run." else ("done" if st == "Integration completed successfully." else st[:40])
    d = float(s.dt)
    return {"t0": int(round(float(s.t0))), "tf": int(round(float(s.tf))), "dtSign": (d > 0) - (d < 0), "status": status,
            "method": type(s.integrator).__name__, "rows": min(len(s), 2), "atEnd": bool(float(s.t[-1]) == float(s.tf)),
            "exactTicks": float(s.t0) == round(float(s.t0)) and float(s.tf) == round(float(s.tf))}


def run_history(ops):
    steps = []
    with warnings.catch_warnings():
        warnings.simplefilter("ignore")
        s = _fresh()
        for o in ops:
            out = "ok"
            try:
                k, v = o["op"], o["v"]
                if k == "setTf":
                    s.tf = float(v)
                elif k == "setT0":
                    s.t0 = float(v)
                elif k == "setDt":
                    s.dt = 0.5 * v
                elif k == "setMethod":
                    s.set_method(v)
                elif k == "integrate":
                    s.integrate()
                elif k == "integrateTo":
                    s.integrate(t=float(v))
                elif k == "reset":
                    s.reset()
                elif k == "print":
                    if not (isinstance(str(s), str) and isinstance(repr(s), str)):
                        out = "notText"
                else:
                    raise core.MachineryError("unknown op %r" % (o,))
            except core.MachineryError:
                raise
            except Exception as e:      # the outcome is an observation
                out = type(e).__name__
            steps.append({"o": o, "out": out, "obs": _project(s)})
    return steps


def _job(item):
    return {"id": item["id"], "steps": run_history(item["ops"])}


def random_histories(n, seed, ticks=(-3, -2, -1, 0, 1, 2, 3), length=10):
    rnd = random.Random(seed)
    hs = []
    for i in range(n):
        ops = []
        for _ in range(rnd.randint(4, length)):
            k = rnd.choice(["setTf", "setT0", "setDt", "setMethod", "integrate", "integrate", "integrateTo", "integrateTo", "reset", "print"])
            v = 0
            if k in ("setTf", "setT0", "integrateTo"):
                v = rnd.choice(ticks)
            elif k == "setDt":
                v = rnd.choice((-1, 1))
            elif k == "setMethod":
                v = rnd.choice(sorted(ALIASES))
            ops.append({"op": k, "v": v})
        hs.append({"id": "rnd%05d" % i, "ops": ops})
    return hs


def check(tier="quick", seed=0):
    rep = {"name": "api", "tier": tier, "seed": seed}
    r = core.model_check("SystemApi", "SystemApi")
    rep["model"] = {"module": "SystemApi", "states": r.generated, "distinct": r.distinct,
                    "checked": ["SpanNeverDegenerate", "StepPointsAlongTheSpan", "StepNeverZero", "StatusOnlyByRunOrReset", "FailedOperationChangesNothing"]}
    gen, _ = core.generate("SystemApi", "SystemApi", name="SystemApi_gen")
    hs = [{"id": "gen%05d" % i, "ops": h["ops"], "expect": h["expect"]} for i, h in enumerate(gen["histories"])]
    traces = core.pool_map(_job, hs)
    # spec -> code: the generated expectation, compared directly
    direct = []
    for h, tr in zip(hs, traces):
        for k, (e, st) in enumerate(zip(h["expect"], tr["steps"])):
            if e["out"] != st["out"]:
                direct.append((h["id"], k + 1, "out", e["out"], st["out"], h["ops"]))
            for fld, val in e["st"].items():
                if (st["obs"][fld] not in val) if fld == "dtSign" else (st["obs"][fld] != val):
                    direct.append((h["id"], k + 1, fld, val, st["obs"][fld], h["ops"]))
    rnd = random_histories(400 if tier == "quick" else 4000, seed)
    traces += core.pool_map(_job, rnd)
    inexact = [t["id"] for t in traces if any(not s["obs"]["exactTicks"] for s in t["steps"])]
    # binding self-test: one recorded field corrupted / one recorded call removed must be rejected
    import copy
    donor = next(t for t in traces if [s["o"]["op"] for s in t["steps"]][:2] == ["integrate", "reset"])
    c1 = copy.deepcopy(donor); c1["id"] = "corrupt-field"; c1["steps"][0]["obs"]["status"] = "notrun"
    donor2 = next(t for t in traces if [s["o"]["op"] for s in t["steps"]][:2] == ["integrate", "print"])
    c2 = copy.deepcopy(donor2); c2["id"] = "dropped-call"; del c2["steps"][0]
    vs, _ = core.judge("ApiJudge", {"traces": [c1, c2]}, "ApiJudge_selftest")
    if {b["id"] for b in vs["bad"]} != {"corrupt-field", "dropped-call"}:
        raise core.MachineryError("ApiJudge accepted a corrupted trace: %r" % (vs,))
    v, jr = core.judge("ApiJudge", {"traces": traces}, "ApiJudge", shards=8, shard_key="traces")
    rep["replayed"] = {"generated_histories": len(hs), "random_histories": len(rnd), "steps": sum(len(t["steps"]) for t in traces),
                       "judge_states": jr.generated, "direct_mismatches": len(direct), "inexact_ticks": len(inexact)}
    by = {}
    ops_of = {t["id"]: [s["o"] for s in t["steps"]] for t in traces}
    for b in v["bad"]:
        by.setdefault(b["clause"], []).append((b["id"], b["step"]))
    rep["deviations"] = {c: {"count": len(w), "first": {"id": min(w)[0], "step": min(w)[1], "ops": ops_of[min(w)[0]][:min(w)[1]]}} for c, w in sorted(by.items())}
    rep["direct_first"] = [list(map(str, d)) for d in direct[:5]]
    return rep
