"""bin/extra suite: the repository's own tests as a trace source.  Every OdeSystem constructed by a test of desolver/tests is
observed by the zero-hook sensor (vf.suiteplugin) and its trace is validated by spec/OdeTrace.tla -- the monitor that validates
the generated scenarios.  The tests' assertions compare an end state loosely; the monitor evaluates every named clause at every
step of the same executions."""
from vf import core, suite


def check(tier="quick", seed=0):
    rep = {"name": "suite", "tier": tier, "seed": seed}
    data = suite.cached()
    recs = data["recs"]
    v, r, traces = suite.judge(recs, name="extra_suite")
    # binding self-test: a corrupted commit (a recorded row that is not the integrator's result) must be rejected
    import copy
    victim = None
    for t in traces:
        for k, e in enumerate(t["events"]):
            if e["e"] == "IntegRet" and k + 1 < len(t["events"]):
                victim = copy.deepcopy(t)
                victim["id"] = "selftest"
                victim["events"][k]["tEnd"] = victim["events"][k]["tEnd"] + 1
                break
        if victim:
            break
    if victim is None:
        raise core.MachineryError("no integrator call in any suite trace")
    vs, _ = core.judge("OdeTrace", {"traces": [victim]}, "extra_suite_selftest")
    if not any(b["clause"] == "C03.CommitIsIntegratorResult" for b in vs["bad"]):
        raise core.MachineryError("the monitor accepted a corrupted suite trace")
    rep["model"] = {"module": "OdeTrace", "judge_states": r.distinct}
    rep["replayed"] = {"tests_with_traces": len({x.get("node") for x in recs if "trace" in x}), "traces": len(traces),
                       "events": sum(len(t["events"]) for t in traces),
                       "integrate_calls": sum(x.get("ncalls", 0) for x in recs),
                       "skipped": sorted({x["skipped"][:80] for x in recs if "skipped" in x}),
                       "n_skipped": sum(1 for x in recs if "skipped" in x), "pytest": data["meta"]}
    by = {}
    for b in v["bad"]:
        by.setdefault(b["clause"], []).append(str(b["id"]))
    rep["deviations"] = {c: {"count": len(w), "first": sorted(w)[:5]} for c, w in sorted(by.items())}
    return rep
