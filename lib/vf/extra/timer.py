"""Growth beyond the listed properties: desolver.utilities.BlockTimer and convert_suffix.

design       : TimerApi.tla with Dev = {} satisfies StoppedTimerReportsItsSpan, EndFreezesTheTimer, StartedTimerReportsOnExit,
               RunningTimerFollowsTheClock, ConvertSuffixIsPositional on every operation sequence to length 5 over a clock that
               advances 0..2 ticks between calls; each deviation the real code has (TimerModel!CodeDev) violates its invariant.
spec -> code : every sequence to length 4 under CodeDev (TLC-generated with expected outcomes) is replayed on a real BlockTimer whose
               clock (time.perf_counter as seen by desolver.utilities.utilities) is scripted; the convert_suffix cases likewise.
code -> spec : the recorded traces plus random longer ones are validated by TimerJudge.tla (one TLC state per call; the timer's
               state is inferred, only outcomes are observed).
"""
import contextlib
import io
import random
import re
from vf import core

NONE = -99
_CONV = re.compile(r"^(-?\d+)d:(-?\d+)h:(-?\d+)m(-?\d+\.\d\d)s$")


class _Clock(object):
    def __init__(self):
        self.now = 0.0

    def perf_counter(self):
        return self.now


def _parse_conv(s):
    m = _CONV.match(s.strip())
    if not m:
        raise core.MachineryError("convert_suffix output not understood: %r" % s)
    d, h, mi, sec = int(m.group(1)), int(m.group(2)), int(m.group(3)), float(m.group(4))
    return [d, h, mi, int(round(sec * 2))]


def _reported(text):
    """What the block printed: None if nothing / never started, else the reported time in ticks (seconds)."""
    for line in text.splitlines():
        if "took " in line or "time taken was " in line:
            c = _parse_conv(line.rsplit(" ", 1)[1])
            return ((c[0] * 24 + c[1]) * 60 + c[2]) * 60 + c[3] // 2
    return None


def run_history(ops):
    import desolver.utilities.utilities as u
    clock = _Clock()
    real_time = u.time
    u.time = clock
    steps = []
    b = None
    try:
        for o in ops:
            k = o["op"]
            clock.now = float(o["now"])
            out = {"kind": "ok", "val": 0}
            buf = io.StringIO()
            try:
                with contextlib.redirect_stdout(buf):
                    if k == "new":
                        b = u.BlockTimer(section_label=None, start_now=bool(o["startNow"]), suppress_print=bool(o["quiet"]))
                    elif b is None:
                        raise TypeError("no timer")
                    elif k == "enter":
                        b.__enter__()
                    elif k == "start":
                        b.start()
                    elif k == "end":
                        b.end()
                    elif k == "restart":
                        b.restart_timer()
                    elif k == "elapsed":
                        out["val"] = int(round(b.elapsed()))
                    elif k == "exit":
                        b.__exit__(None, None, None)
                    else:
                        raise core.MachineryError("unknown op %r" % (o,))
                if k == "exit":
                    r = _reported(buf.getvalue())
                    out["val"] = NONE if r is None else int(r)
            except core.MachineryError:
                raise
            except Exception:      # the outcome is an observation
                out = {"kind": "error", "val": NONE}
            steps.append({"o": o, "out": out})
    finally:
        u.time = real_time
    return steps


def _job(item):
    return {"id": item["id"], "steps": run_history(item["ops"])}


def random_histories(n, seed, length=14):
    rnd = random.Random(seed)
    hs = []
    for i in range(n):
        now = 0
        ops = [{"op": "new", "startNow": rnd.random() < 0.5, "quiet": rnd.random() < 0.3, "now": 0}]
        for _ in range(rnd.randint(2, length)):
            now += rnd.choice([0, 1, 1, 2, 7, 59, 3600])
            ops.append({"op": rnd.choice(["enter", "start", "end", "restart", "elapsed", "elapsed", "exit"]), "now": now})
        hs.append({"id": "rnd%d" % i, "ops": ops})
    return hs


def conv_cases(vs):
    import desolver.utilities.utilities as u
    return [{"v": int(v), "out": _parse_conv(u.convert_suffix(v / 2.0))} for v in vs]


def check(tier="quick", seed=0):
    rep = {"name": "timer", "tier": tier, "seed": seed}
    r = core.model_check("TimerApiMC", "TimerApi_design", workers=4)
    rep["model"] = {"module": "TimerApi", "distinct": r.distinct, "generated": r.generated}
    for cfg, inv in (("TimerApi_devManual", "StartedTimerReportsOnExit"), ("TimerApi_devExit", "EndFreezesTheTimer")):
        core.model_check("TimerApiMC", cfg, expect_violation=inv, workers=4)
    rt = core.run_tlc("TimerApiMC", "TimerApi_devTrunc", workers=1)
    if "ConvertSuffixIsPositional" not in rt.out:
        raise core.MachineryError("deviation secondsTruncated does not violate ConvertSuffixIsPositional")
    gen, rg = core.generate("TimerApiMC", "TimerApi_gen", name="TimerApi_gen")
    hists = [{"id": "g%d" % i, "ops": [st["o"] for st in h], "expect": [st["out"] for st in h]} for i, h in enumerate(gen["histories"])]
    obs = core.pool_map(_job, hists, chunksize=200)
    dev = {}

    def note(clause, first):
        d = dev.setdefault(clause, {"count": 0, "first": first})
        d["count"] += 1
    # spec -> code
    for h, o in zip(hists, obs):
        for k, (e, st) in enumerate(zip(h["expect"], o["steps"])):
            if e["kind"] != st["out"]["kind"]:
                note("Timer.Replay.Outcome.%s.expected.%s.observed.%s" % (st["o"]["op"], e["kind"], st["out"]["kind"]), {"ops": h["ops"][:k + 1]})
                break
            if e["val"] != st["out"]["val"]:
                note("Timer.Replay.Value.%s" % st["o"]["op"], {"ops": h["ops"][:k + 1], "expected": e["val"], "observed": st["out"]["val"]})
                break
    cexp = {c["v"]: c["out"] for c in gen["conv"]}
    cobs = conv_cases(sorted(cexp))
    for c in cobs:
        if c["out"] != cexp[c["v"]]:
            note("Timer.Replay.ConvertSuffix", {"v": c["v"], "expected": cexp[c["v"]], "observed": c["out"]})
    # code -> spec
    rnd = random_histories(600 if tier == "quick" else 6000, seed)
    robs = core.pool_map(_job, rnd, chunksize=100)
    r2 = random.Random(seed + 1)
    extra_v = sorted({r2.randrange(0, 2 ** 24) for _ in range(300)})
    traces = [{"id": o["id"], "steps": o["steps"]} for o in obs + robs]
    payload = {"traces": traces, "conv": cobs + conv_cases(extra_v)}
    # binding self-test: a corrupted value and a dropped call are rejected
    import copy
    bad = copy.deepcopy({"traces": traces[:200], "conv": cobs[:5]})
    victim = next(t for t in bad["traces"] if any(s["o"]["op"] == "elapsed" and s["out"]["kind"] == "ok" for s in t["steps"]))
    for s in victim["steps"]:
        if s["o"]["op"] == "elapsed" and s["out"]["kind"] == "ok":
            s["out"]["val"] += 1
            break
    bad["conv"][0]["out"][3] += 1
    vs, _ = core.judge("TimerJudge", bad, "TimerJudge_selftest")
    got = {b["clause"] for b in vs["bad"]}
    if not ({"Timer.Value.elapsed", "Timer.ConvertSuffix"} <= got):
        raise core.MachineryError("TimerJudge accepted corrupted traces: %r" % sorted(got))
    v, rj = core.judge("TimerJudge", payload, "TimerJudge", shards=8, shard_key="traces")
    for b in v["bad"]:
        note(b["clause"], {"trace": b["id"], "step": b["step"]})
    rep["replayed"] = {"histories": len(hists), "calls": sum(len(h["ops"]) for h in hists), "random_histories": len(rnd),
                       "convert_suffix_cases": len(payload["conv"]), "judge_states": rj.distinct}
    rep["deviations"] = dev
    rep["code_deviations_modelled"] = {
        "manualStartCountsAsStopped": "BlockTimer(start_now=False) is born `stopped`; after start() without end(), leaving the with-block raises TypeError (None - float)",
        "exitOverwritesEnd": "a printing start_now timer re-reads the clock on __exit__: the time frozen by an earlier end() is replaced",
        "secondsTruncated": "convert_suffix truncates the seconds to an integer before printing them with two decimals (1.75 s -> '1.00s')"}
    return rep
