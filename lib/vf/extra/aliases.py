"""bin/extra aliases: the table of method names (growth).  The sensor lists every integrator class with its declared alternative
names, the name -> class table, and what OdeSystem.set_method(name) installs for each of the names; AliasJudge.tla decides that every
declared name resolves to its class, no name is declared by two classes, the table has nothing else, the list is the table and
set_method installs that class."""
import warnings
import numpy as np
from vf import core


def check(tier="quick", seed=0):
    import desolver as de
    rep = {"name": "aliases", "tier": tier, "seed": seed}
    classes = de.integrators.explicit_methods() + de.integrators.implicit_methods()
    table = de.integrators.available_methods(False)
    installed = []
    with warnings.catch_warnings():
        warnings.simplefilter("ignore")
        s = de.OdeSystem(lambda t, y: np.array([y[1], -y[0]]), y0=np.array([1.0, 0.0]), t=(0.0, 1.0), dt=0.1)
        for alias in table:
            try:
                s.set_method(alias)
                installed.append({"alias": alias, "cls": type(s.integrator).__name__, "outcome": "ok"})
            except Exception as e:      # noqa
                installed.append({"alias": alias, "cls": "", "outcome": type(e).__name__})
    payload = {"classes": [{"name": c.__name__, "alts": list(getattr(c, "__alt_names__", ()) or ())} for c in classes],
               "table": [{"alias": k, "cls": v.__name__} for k, v in table.items()],
               "listed": list(de.integrators.available_methods()), "installed": installed}
    import copy
    bad = copy.deepcopy(payload)
    bad["table"][3]["cls"] = bad["table"][-1]["cls"]         # one name resolves to another class
    del bad["installed"][5]
    vs, _ = core.judge("AliasJudge", bad, "AliasJudge_selftest")
    if not {b["clause"] for b in vs["bad"]} >= {"Aliases.EveryDeclaredNameResolvesToItsClass", "Aliases.TableHasOnlyDeclaredNames"}:
        raise core.MachineryError("AliasJudge accepted a corrupted table: %r" % (vs,))
    v, r = core.judge("AliasJudge", payload, "AliasJudge")
    rep["model"] = {"module": "AliasJudge", "classes": len(classes), "names": len(table)}
    rep["replayed"] = {"set_method_calls": len(installed)}
    by = {}
    for b in v["bad"]:
        by.setdefault(b["clause"], []).append(b["what"])
    rep["deviations"] = {c: {"count": len(w), "first": sorted(w)[:5]} for c, w in sorted(by.items())}
    return rep
