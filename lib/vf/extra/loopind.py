"""bin/extra loopind: unbounded safety of the step loop with Apalache.  LoopInd.tla states the integrate loop over unbounded integer
ticks (orientation of the step, clamp of the last step, an integrator that takes any non-empty part of the requested step and proposes
any non-zero next step).  Apalache discharges Init => IndInv (length 0) and IndInv /\\ Next => IndInv' (length 1): the current time
never passes the target, rows are ordered along the call's direction and every step strictly reduces the remaining distance, for EVERY
start, target and step.  With the pinned tree's final-step test (Deviant = TRUE, repair 1) the induction step must fail."""
import os
import shutil
import subprocess
import time
from vf import core


def apalache(args, timeout=900):
    out_dir = os.path.join(core.WORK, "apalache")
    shutil.rmtree(out_dir, ignore_errors=True)
    os.makedirs(out_dir, exist_ok=True)
    t0 = time.time()
    try:
        p = subprocess.run(["apalache-mc", "check", "--out-dir=" + out_dir] + args + ["LoopInd.tla"], cwd=core.SPEC, stdout=subprocess.PIPE,
                           stderr=subprocess.STDOUT, universal_newlines=True, timeout=timeout)
        out = p.stdout
    except subprocess.TimeoutExpired:
        raise core.MachineryError("apalache timed out")
    finally:
        shutil.rmtree(out_dir, ignore_errors=True)
    ok = "EXITCODE: OK" in out
    violated = "invariant 1 violated" in out or "EXITCODE: ERROR (12)" in out
    if not ok and not violated:
        raise core.MachineryError("apalache failed:\n" + out[-1500:])
    return ok, round(time.time() - t0, 1)


def tlaps(timeout=900):
    """The inductive step once more, by the TLA+ proof system (spec/proofs/LoopIndProof.tla); the cache goes to a scratch copy."""
    d = os.path.join(core.WORK, "tlaps")
    shutil.rmtree(d, ignore_errors=True)
    os.makedirs(d, exist_ok=True)
    for f in ("LoopInd.tla", os.path.join("proofs", "LoopIndProof.tla")):
        shutil.copy(os.path.join(core.SPEC, f), d)
    t0 = time.time()
    try:
        p = subprocess.run(["tlapm", "--toolbox", "0", "0", "LoopIndProof.tla"], cwd=d, stdout=subprocess.PIPE, stderr=subprocess.STDOUT,
                           universal_newlines=True, timeout=timeout)
    except subprocess.TimeoutExpired:
        raise core.MachineryError("tlapm timed out")
    finally:
        out = locals().get("p").stdout if locals().get("p") else ""
        shutil.rmtree(d, ignore_errors=True)
    import re
    m = re.search(r"All (\d+) obligations proved", out)
    if not m and "obligations failed" not in out:
        raise core.MachineryError("tlapm failed:\n" + out[-1500:])
    return (int(m.group(1)) if m else 0), round(time.time() - t0, 1)


def check(tier="quick", seed=0):
    rep = {"name": "loopind", "tier": tier, "seed": seed, "deviations": {}}
    base, t1 = apalache(["--cinit=CInitOk", "--init=Init", "--inv=IndInv", "--length=0"])
    step, t2 = apalache(["--cinit=CInitOk", "--init=IndInit", "--inv=IndInv", "--length=1"])
    dev, t3 = apalache(["--cinit=CInitDev", "--init=IndInit", "--inv=IndInv", "--length=1"])
    rep["model"] = {"module": "LoopInd", "tool": "apalache-mc", "init_implies_inv": base, "inv_is_inductive": step,
                    "pinned_final_step_test_breaks_induction": not dev, "wall_s": [t1, t2, t3]}
    nobl, t4 = tlaps()
    rep["model"]["tlaps_obligations_proved"] = nobl
    rep["model"]["wall_s"].append(t4)
    rep["replayed"] = {}
    if not nobl:
        rep["deviations"]["LoopInd.TlapsProofFails"] = {"count": 1, "first": "spec/proofs/LoopIndProof.tla"}
    if not (base and step):
        rep["deviations"]["LoopInd.InductionFails"] = {"count": 1, "first": rep["model"]}
    if dev:
        raise core.MachineryError("the deviant final-step test did not break the induction: the invariant is vacuous")
    return rep
