"""Growth beyond the listed properties: the public DenseOutput container.

design       : DenseApi.tla with Dev = {} satisfies AnsweredByContainingPiece, TimesPairWithPieces, BoundsAreTheCoveredRange on every
               operation sequence to length 4 - pieces may continue in either direction (integrate() calls that turn round); each
               deviation the real class has (DenseModel!CodeDev) violates its invariant, and so does the lookup the class had before
               repair 654424a (bisectAfterTurn).
spec -> code : every operation sequence to length 3 under CodeDev (9644 histories, TLC-generated with expected outcomes) is replayed on
               a real DenseOutput whose pieces are the lines y = 100 id + t.
code -> spec : the recorded traces plus random longer ones are validated by DenseApiJudge.tla (one TLC state per call; the container's
               state is inferred by the model, only outcomes are observed).
"""
import random
import numpy as np
from vf import core

NONE = -99


def _piece(pid, a, b):
    from desolver.utilities.interpolation import CubicHermiteInterp as H
    one = np.array([1.0])
    return H(np.float64(a), np.float64(b), np.array([100.0 * pid + a]), np.array([100.0 * pid + b]), one, one)


def _val(x):
    if x is None:
        return NONE
    x = float(np.asarray(x).reshape(-1)[0])
    return int(round(x))


def run_history(ops):
    from desolver.differential_system import DenseOutput
    d = DenseOutput(None, None)
    nid = 1
    steps = []
    for o in ops:
        k = o["op"]
        out = {"kind": "ok", "val": 0}
        try:
            if k == "new":
                d, nid = DenseOutput(None, None), 1
            elif k == "ctor":
                ts = [np.float64(t) for t in o["times"]]
                d = DenseOutput(ts, [_piece(i + 1, ts[i], ts[i + 1]) for i in range(len(ts) - 1)])
                nid = len(ts)
            elif k == "add":
                a = float(d.t_eval[-1]) if d.t_eval else float(o["a"])
                p = _piece(nid, a, o["b"])
                nid += 1                      # the model numbers a piece when the call is made
                d.add_interpolant(np.float64(o["b"]), p)
            elif k == "remove":
                t, p = d.remove_interpolant(o["i"])
                out["val"] = int(round((float(p(p.t0)[0]) - float(p.t0)) / 100.0))
            elif k in ("eval", "evalv"):
                q = np.float64(o["q"])
                v = d(q) if k == "eval" else d(np.array([q]))[0]
                out["val"] = int(round((float(np.asarray(v).reshape(-1)[0]) - float(q)) / 100.0))
            elif k == "len":
                out["val"] = len(d)
            elif k == "tmin":
                out["val"] = _val(d.t_min)
            elif k == "tmax":
                out["val"] = _val(d.t_max)
            else:
                raise core.MachineryError("unknown op %r" % (o,))
        except core.MachineryError:
            raise
        except Exception as e:       # the outcome is an observation
            out = {"kind": ("ValueError" if isinstance(e, ValueError) else "error"), "val": NONE}
        steps.append({"o": o, "out": out})
    return steps


def _job(item):
    return {"id": item["id"], "steps": run_history(item["ops"])}


def random_histories(n, seed, length=12):
    rnd = random.Random(seed)
    hs = []
    for i in range(n):
        ops = []
        up = rnd.random() < 0.5
        turning = rnd.random() < 0.5              # half of the histories change direction now and then
        cur = None
        for _ in range(rnd.randint(5, length)):
            k = rnd.choice(["add", "add", "add", "remove", "eval", "evalv", "len", "tmin", "tmax", "ctor", "new"])
            if k == "new":
                ops.append({"op": "new"}); cur = None
            elif k == "ctor":
                n_ = rnd.randint(1, 3)
                st = rnd.randint(-4, 4)
                ts = [st + (j if up else -j) * rnd.choice((1, 2)) for j in range(n_ + 1)]
                ts = sorted(set(ts), reverse=not up)
                if len(ts) < 2:
                    continue
                ops.append({"op": "ctor", "times": ts}); cur = ts[-1]
            elif k == "add":
                a = rnd.randint(-4, 4) if cur is None else cur
                if turning and rnd.random() < 0.3:
                    up = not up                   # the integration turns round
                b = a + rnd.choice((1, 2)) * (1 if up else -1)
                ops.append({"op": "add", "a": a, "b": b}); cur = b
            elif k == "remove":
                ops.append({"op": "remove", "i": rnd.choice((0, -1))})
                ops.append({"op": "len"})
            elif k in ("eval", "evalv"):
                ops.append({"op": k, "q": rnd.randint(-6, 6)})
            else:
                ops.append({"op": k})
        hs.append({"id": "rnd%05d" % i, "ops": ops})
    return hs


def _fix_adds(hs):
    """Random histories pick 'a' only when nothing is stored; after a removal the continuation point is whatever the object still
    stores, which the generator does not track - drop adds that follow a removal within the same object (keeps histories one-directional)."""
    out = []
    for h in hs:
        ops, blocked = [], False
        for o in h["ops"]:
            if o["op"] in ("new", "ctor"):
                blocked = False
            if o["op"] == "remove":
                blocked = True
            if o["op"] == "add" and blocked:
                continue
            ops.append(o)
        out.append({"id": h["id"], "ops": ops})
    return out


def check(tier="quick", seed=0):
    rep = {"name": "dense", "tier": tier, "seed": seed}
    r = core.model_check("DenseApiMC", "DenseApi_design")
    rep["model"] = {"module": "DenseApi", "states": r.generated, "checked": ["AnsweredByContainingPiece", "TimesPairWithPieces", "BoundsAreTheCoveredRange"]}
    core.model_check("DenseApiMC", "DenseApi_devCtor", expect_violation="TimesPairWithPieces")
    core.model_check("DenseApiMC", "DenseApi_devBounds", expect_violation="BoundsAreTheCoveredRange")
    core.model_check("DenseApiMC", "DenseApi_devTurn", expect_violation="AnsweredByContainingPiece")    # the lookup before repair 654424a
    gen, _ = core.generate("DenseApiMC", "DenseApi_gen", name="DenseApi_gen")
    hs = [{"id": "gen%05d" % i, "ops": [e["o"] for e in h], "expect": [e["out"] for e in h]} for i, h in enumerate(gen["histories"])]
    traces = core.pool_map(_job, hs, chunksize=64)
    direct = [(h["id"], k + 1) for h, tr in zip(hs, traces) for k, (e, st) in enumerate(zip(h["expect"], tr["steps"])) if e != st["out"]]
    rnd = _fix_adds(random_histories(600 if tier == "quick" else 6000, seed))
    traces += core.pool_map(_job, rnd, chunksize=64)
    import copy
    donor = next(t for t in traces if [s["o"]["op"] for s in t["steps"]][:2] == ["ctor", "eval"])
    c1 = copy.deepcopy(donor); c1["id"] = "corrupt-value"; c1["steps"][1]["out"]["val"] += 1
    donor2 = next(t for t in traces if [s["o"]["op"] for s in t["steps"]][:2] == ["ctor", "len"])
    c2 = copy.deepcopy(donor2); c2["id"] = "dropped-call"; del c2["steps"][0]
    vs, _ = core.judge("DenseApiJudge", {"traces": [c1, c2]}, "DenseApiJudge_selftest")
    if {b["id"] for b in vs["bad"]} != {"corrupt-value", "dropped-call"}:
        raise core.MachineryError("DenseApiJudge accepted a corrupted trace: %r" % (vs,))
    v, jr = core.judge("DenseApiJudge", {"traces": traces}, "DenseApiJudge", shards=8, shard_key="traces")
    rep["replayed"] = {"generated_histories": len(hs), "random_histories": len(rnd), "steps": sum(len(t["steps"]) for t in traces),
                       "judge_states": jr.generated, "direct_mismatches": len(direct)}
    by = {}
    ops_of = {t["id"]: [s for s in t["steps"]] for t in traces}
    for b in v["bad"]:
        by.setdefault(b["clause"], []).append((b["id"], b["step"]))
    rep["code_deviations_modelled"] = {
        "ctorStoresStart": "DenseOutput(times, pieces) keeps all N+1 times while add_interpolant keeps end times only; lookup assumes end "
                           "times only, so an object built by the constructor answers every interior query from the NEXT piece (extrapolated), "
                           "len() counts N+1, and a failed remove_interpolant pops the time before the missing piece raises",
        "boundsFromRawCache": "t_min / t_max read the stacked-array cache without refreshing it: None before the first array query, stale "
                              "after add_interpolant, never include the start of the first piece"}
    rep["deviations"] = {c: {"count": len(w), "first": {"id": min(w)[0], "step": min(w)[1], "steps": ops_of[min(w)[0]][:min(w)[1]]}} for c, w in sorted(by.items())}
    return rep
