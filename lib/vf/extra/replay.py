"""bin/extra replay: the whole spec -> code replay of the design model (all mismatch kinds, both simulation configurations); the
property checks C03, C09 and C12 run the parts that concern them as a phase (vf.modelreplay.phase)."""
from vf import modelreplay as mr


def check(tier="quick", seed=0):
    rep = {"name": "replay", "tier": tier, "seed": seed}
    logs, items, res, n_states = mr.run(["OdeSystemSim_fixed", "OdeSystemSim_fixed_nofault", "OdeSystemSim_adaptive", "OdeSystemSim_adaptive_nofault", "OdeSystemSim_fixed_nodense", "OdeSystemSim_adaptive_nodense"], 400 if tier == "quick" else 4000, seed, mr.METHODS)
    by = {}
    for (lg, m), r in zip(items, res):
        for mm in r["mismatches"]:
            by.setdefault("Replay." + mm["what"], []).append({"method": m, "behaviour": mr.short(lg), "mismatch": mm})
    rep["replayed"] = {"behaviours": len(logs), "api_calls": sum(r["calls"] for r in res), "tlc_states": n_states,
                       "with_events": sum(1 for lg in logs if any(e["k"] == "ret" and e["p"]["events"] for e in lg)),
                       "with_fault": sum(1 for lg in logs if any(e["k"] == "fault" for e in lg)),
                       "with_callback_assignment": sum(1 for lg in logs if any(e["k"] == "cb" and e["set"] for e in lg))}
    rep["deviations"] = {c: {"count": len(w), "first": w[0]} for c, w in sorted(by.items())}
    return rep
