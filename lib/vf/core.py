"""Common machinery: TLC runner (model checking + judge), findings classification,
evidence writing, the check CLI.

Exit codes: 0 = property held on everything explored (known findings are printed, not
failures); 1 = at least one VIOLATION line; 2 = machinery failure (TLC crash, parse error,
sensor exception) -- never used to report a property violation.
"""
import json
import os
import re
import shutil
import subprocess
import sys
import time
import traceback
import fnmatch

ROOT = os.path.dirname(os.path.dirname(os.path.dirname(os.path.abspath(__file__))))
SPEC = os.path.join(ROOT, "spec")
_OUT = os.environ.get("VF_OUT_ROOT") or ROOT
WORK = os.path.join(_OUT, "work")
EVID = os.path.join(_OUT, "evidence")
REPLAYS = os.path.join(_OUT, "replays")
TLA_JAR = "/opt/veriftools/tla/tla2tools.jar"
NCPU = min(16, os.cpu_count() or 1)


class MachineryError(Exception):
    pass


class TLCResult(object):
    def __init__(self, rc, out, wall):
        self.rc = rc
        self.out = out
        self.wall = wall
        m = re.findall(r"(\d+) states generated, (\d+) distinct states found", out)
        self.generated = int(m[-1][0]) if m else 0
        self.distinct = int(m[-1][1]) if m else 0
        m = re.search(r"depth of the complete state graph search is (\d+)", out)
        self.depth = int(m.group(1)) if m else 0
        self.violated = re.findall(r"Error: Invariant (\S+) is violated", out)
        self.violated += re.findall(r"Error: Action property (\S+) is violated", out)
        self.violated += re.findall(r"Error: Temporal properties were violated", out)
        self.completed = "Model checking completed. No error has been found." in out
        self.sim_done = "Progress:" in out or "states checked" in out

    @property
    def error(self):
        if self.completed:
            return None
        m = re.search(r"Error: (.*)", self.out)
        return m.group(1) if m else ("rc=%d" % self.rc)


def _classpath():
    cp = [TLA_JAR]
    d = os.path.dirname(TLA_JAR)
    for f in sorted(os.listdir(d)):
        if f.endswith(".jar") and f != os.path.basename(TLA_JAR):
            cp.append(os.path.join(d, f))
    return ":".join(cp)


def run_tlc(module, cfg=None, env=None, workers=None, timeout=600, metadir=None, extra=(),
            simulate=None, depth=None, seed=None, heap="4g"):
    """Run TLC on spec/<module>.tla with spec/<cfg>.cfg. Returns TLCResult."""
    workers = workers or NCPU
    cfg = cfg or module
    import uuid
    metadir = metadir or os.path.join(WORK, "tlc", "%s_%d_%s" % (cfg, os.getpid(), uuid.uuid4().hex[:10]))
    os.makedirs(metadir, exist_ok=True)
    cmd = ["tlc", "-workers", str(workers), "-metadir", metadir, "-noGenerateSpecTE",
           "-config", cfg + ".cfg"]
    if simulate:
        cmd += ["-simulate", simulate]
    if depth:
        cmd += ["-depth", str(depth)]
    if seed is not None:
        cmd += ["-seed", str(seed)]
    cmd += list(extra)
    cmd += [module + ".tla"]
    e = dict(os.environ)
    e.setdefault("JAVA_OPTS", "")
    if env:
        e.update({k: str(v) for k, v in env.items()})
    t0 = time.time()
    try:
        p = subprocess.run(cmd, cwd=SPEC, env=e, stdout=subprocess.PIPE, stderr=subprocess.STDOUT,
                           timeout=timeout, universal_newlines=True)
        out, rc = p.stdout, p.returncode
    except subprocess.TimeoutExpired as ex:
        out = (ex.stdout or "")
        if isinstance(out, bytes):
            out = out.decode("utf8", "replace")
        out += "\nTIMEOUT"
        rc = 124
        subprocess.run(["pkill", "-f", metadir], stdout=subprocess.DEVNULL, stderr=subprocess.DEVNULL)
    shutil.rmtree(metadir, ignore_errors=True)
    return TLCResult(rc, out, time.time() - t0)


def model_check(module, cfg=None, expect_violation=None, **kw):
    """Exhaustive TLC run that must complete without error (or, for the deviation self
    tests, must violate exactly `expect_violation`). Returns TLCResult; raises
    MachineryError on anything else."""
    r = run_tlc(module, cfg, **kw)
    if expect_violation is None:
        if not r.completed:
            raise MachineryError("TLC %s/%s did not complete cleanly: %s\n%s" % (module, cfg or module, r.error, r.out[-3000:]))
    else:
        if expect_violation not in r.violated:
            raise MachineryError("TLC %s/%s expected violation of %s, got %r" % (module, cfg, expect_violation, r.violated))
    return r


def judge(module, payload, name, cfg=None, workers=1, timeout=900, shards=1, shard_key=None):
    """Hand observations to the TLA+ judge `module` and return its verdict.

    The judge reads JSON from $VF_IN, walks the cases one state per case, and serialises
    [n |-> consumed, bad |-> {[id, clause, ...]}] to $VF_OUT when it has consumed all of
    them.  Returns (verdict_dict, TLCResult).  With shards > 1 the list payload[shard_key]
    is split and judged by parallel TLC processes; verdicts are merged.
    """
    os.makedirs(os.path.join(WORK, "judge"), exist_ok=True)
    if shards > 1 and shard_key:
        items = payload[shard_key]
        n = max(1, min(shards, len(items)))
        chunks = [items[i::n] for i in range(n)]
        procs = []
        import concurrent.futures as cf
        with cf.ThreadPoolExecutor(max_workers=n) as ex:
            futs = []
            for k, ch in enumerate(chunks):
                p = dict(payload)
                p[shard_key] = ch
                futs.append(ex.submit(judge, module, p, "%s_s%d" % (name, k), cfg, 1, timeout))
            res = [f.result() for f in futs]
        bad, total = [], 0
        gen = dist = 0
        wall = 0
        for v, r in res:
            bad += v["bad"]
            total += v["n"]
            gen += r.generated
            dist += r.distinct
            wall = max(wall, r.wall)
        rr = res[0][1]
        rr.generated, rr.distinct, rr.wall = gen, dist, wall
        return {"n": total, "bad": bad}, rr
    fin = os.path.join(WORK, "judge", name + ".in.json")
    fout = os.path.join(WORK, "judge", name + ".out.json")
    with open(fin, "w") as f:
        json.dump(payload, f)
    if os.path.exists(fout):
        os.remove(fout)
    r = run_tlc(module, cfg, env={"VF_IN": fin, "VF_OUT": fout}, workers=workers, timeout=timeout)
    if not r.completed or not os.path.exists(fout):
        raise MachineryError("judge %s failed: %s\n%s" % (module, r.error, r.out[-4000:]))
    with open(fout) as f:
        v = json.load(f)
    if isinstance(v.get("bad"), dict):
        v["bad"] = list(v["bad"].values())
    if v.get("bad") is None:
        v["bad"] = []
    return v, r


def generate(module, cfg=None, name=None, workers=1, timeout=900, env=None):
    """Run a TLC generator (a model that also serialises cases/obligations to $VF_OUT)
    and return (parsed JSON, TLCResult)."""
    os.makedirs(os.path.join(WORK, "gen"), exist_ok=True)
    fout = os.path.join(WORK, "gen", (name or (cfg or module)) + ".json")
    if os.path.exists(fout):
        os.remove(fout)
    e = {"VF_OUT": fout}
    if env:
        e.update(env)
    r = run_tlc(module, cfg, env=e, workers=workers, timeout=timeout)
    if not r.completed or not os.path.exists(fout):
        raise MachineryError("generator %s/%s failed: %s\n%s" % (module, cfg, r.error, r.out[-4000:]))
    with open(fout) as f:
        return json.load(f), r


# ----------------------------------------------------------------------------------------
# findings

def load_findings():
    p = os.path.join(ROOT, "known_findings.json")
    if not os.path.exists(p):
        return []
    with open(p) as f:
        return json.load(f)["findings"]


class Violation(object):
    def __init__(self, pid, clause, sig, detail=None, replay=None):
        self.pid = pid
        self.clause = clause
        self.sig = sig
        self.detail = detail
        self.replay = replay

    def key(self):
        return (self.clause, self.sig)


def match_finding(v, findings):
    for f in findings:
        if f.get("property") != v.pid:
            continue
        if not str(f.get("status", "")).startswith("known"):
            continue
        if not fnmatch.fnmatchcase(v.clause, f.get("clause", "*")):
            continue
        if not re.search(f.get("sig", ".*"), v.sig):
            continue
        return f
    return None


# ----------------------------------------------------------------------------------------
# a check run

class Run(object):
    def __init__(self, pid, tier, seed, level="model_checking", is_replay=False):
        self.is_replay = is_replay
        self.pid = pid
        self.tier = tier
        self.seed = seed
        self.level = level
        self.t0 = time.time()
        self.violations = []
        self.states = 0
        self.transitions = 0
        self.judge_states = 0
        self.traces = 0
        self.evaluations = 0
        self.nontrivial = set()
        self.samples = []
        self.assumptions = []
        self.notes = {}
        self.rule = ""
        self.exhaustive = None
        self.mc_runs = []
        self.workdir = os.path.join(WORK, pid)
        shutil.rmtree(self.workdir, ignore_errors=True)
        os.makedirs(self.workdir, exist_ok=True)
        if not is_replay:       # the file being replayed lives there
            shutil.rmtree(os.path.join(REPLAYS, pid), ignore_errors=True)

    # model checking of the design
    def mc(self, module, cfg=None, **kw):
        r = model_check(module, cfg, **kw)
        self.states += r.distinct
        self.transitions += r.generated
        self.mc_runs.append({"module": module, "cfg": cfg or module, "distinct": r.distinct,
                             "generated": r.generated, "depth": r.depth, "wall_s": round(r.wall, 2)})
        return r

    def generate(self, module, cfg=None, **kw):
        v, r = generate(module, cfg, **kw)
        self.states += r.distinct
        self.transitions += r.generated
        self.mc_runs.append({"module": module, "cfg": cfg or module, "generator": True, "distinct": r.distinct,
                             "generated": r.generated, "wall_s": round(r.wall, 2)})
        return v

    def judge(self, module, payload, name=None, **kw):
        v, r = judge(module, payload, name or ("%s_%s" % (self.pid, module)), **kw)
        self.judge_states += r.distinct
        self.mc_runs.append({"module": module, "judge": True, "cases": v["n"], "distinct": r.distinct,
                             "wall_s": round(r.wall, 2)})
        return v

    def violation(self, clause, sig, detail=None, replay=None):
        self.violations.append(Violation(self.pid, clause, sig, detail, replay))

    def sample(self, s, limit=6):
        if len(self.samples) < limit:
            self.samples.append(s)

    def finish(self):
        findings = load_findings()
        known, new = {}, []
        for v in self.violations:
            f = match_finding(v, findings)
            if f is not None:
                known.setdefault(f["what"], []).append(v)
            else:
                new.append(v)
        for what, vs in sorted(known.items()):
            print("KNOWN-FINDING: property=%s %s (%d matching observations, e.g. clause=%s sig=%s)"
                  % (self.pid, what, len(vs), vs[0].clause, vs[0].sig))
        rdir = os.path.join(REPLAYS, self.pid, "replayed") if self.is_replay else os.path.join(REPLAYS, self.pid)
        os.makedirs(rdir, exist_ok=True)
        seen = set()
        nprint = 0
        per_clause = {}
        for v in new:
            k = v.key()
            if k in seen:
                continue
            seen.add(k)
            path = os.path.join(rdir, "%s_%03d.json" % (re.sub(r"[^A-Za-z0-9_.-]", "_", v.clause)[:60], len(seen)))
            with open(path, "w") as f:
                json.dump({"property": self.pid, "clause": v.clause, "sig": v.sig, "detail": v.detail,
                           "scenario": v.replay}, f, indent=1, default=str)
            per_clause[v.clause] = per_clause.get(v.clause, 0) + 1
            if per_clause[v.clause] <= 8 and nprint < 80:        # every violated clause is shown, none floods the output
                print("VIOLATION property=%s replay=%s clause=%s sig=%s detail=%s"
                      % (self.pid, path, v.clause, v.sig, json.dumps(v.detail, default=str)[:400]))
                nprint += 1
        if len(seen) > nprint:
            print("... %d further distinct violations not printed (replay files written); per clause: %s"
                  % (len(seen) - nprint, ", ".join("%s=%d" % kv for kv in sorted(per_clause.items()))))
        cov = {
            "states": self.states,
            "transitions": self.transitions,
            "traces_validated_against_impl": self.traces,
            "samples": self.samples or [{"note": "no sample recorded"}],
            "evaluations": self.evaluations,
            "distinct_nontrivial": len(self.nontrivial),
            "rule": self.rule,
            "judge_states": self.judge_states,
            "tlc_runs": self.mc_runs,
            "known_findings_hit": sorted(known.keys()),
        }
        if self.exhaustive is not None:
            cov["exhaustive"] = bool(self.exhaustive)
        cov.update(self.notes)
        ev = {"property_id": self.pid, "tier": self.tier, "seed": int(self.seed), "level": self.level,
              "coverage": cov, "assumptions": self.assumptions, "wall_s": round(time.time() - self.t0, 2),
              "violations": len(seen)}
        # a --replay run re-executes one recorded violation: it must not replace the evidence of the last full run
        evid = os.path.join(WORK, "replay_evidence") if getattr(self, "is_replay", False) else EVID
        os.makedirs(evid, exist_ok=True)
        with open(os.path.join(evid, self.pid + ".json"), "w") as f:
            json.dump(ev, f, indent=1, default=str)
        print("%s tier=%s seed=%s: mc states=%d, judge states=%d, traces=%d, evaluations=%d, nontrivial=%d, "
              "known=%d, violations=%d, wall=%.1fs" % (self.pid, self.tier, self.seed, self.states, self.judge_states,
                                                      self.traces, self.evaluations, len(self.nontrivial),
                                                      sum(len(x) for x in known.values()), len(seen),
                                                      time.time() - self.t0))
        return 1 if seen else 0


def _worker_init():
    # a run-away execution must fail inside its own process (MemoryError) instead of being killed by the kernel,
    # which would leave the pool waiting for ever
    try:
        import resource
        lim = 8 * 1024 ** 3
        resource.setrlimit(resource.RLIMIT_AS, (lim, lim))
    except Exception:     # noqa
        pass


class _Guard(object):
    """Turns any BaseException of a job (BudgetExceeded, SystemExit, ...) into a value: a worker must never die."""

    def __init__(self, fn):
        self.fn = fn

    def __call__(self, x):
        try:
            return ("ok", self.fn(x))
        except BaseException as e:      # noqa
            return ("exc", "%s: %s\n%s" % (type(e).__name__, e, traceback.format_exc()[-1500:]))


def pool_map(fn, items, procs=None, chunksize=1, timeout=5400):
    """Run fn over items in worker processes (fork), preserving order."""
    import multiprocessing as mp
    procs = procs or NCPU
    if procs <= 1 or len(items) <= 1:
        return [fn(x) for x in items]
    ctx = mp.get_context("fork")
    g = _Guard(fn)
    with ctx.Pool(min(procs, len(items)), initializer=_worker_init) as p:
        try:
            res = p.map_async(g, items, chunksize).get(timeout=timeout)
        except mp.TimeoutError:
            p.terminate()
            raise MachineryError("worker pool did not finish within %d s" % timeout)
    out = []
    for k, (st, v) in enumerate(res):
        if st != "ok":
            raise MachineryError("job %d raised in its worker: %s" % (k, v))
        out.append(v)
    return out


def main(argv=None):
    import argparse
    import importlib
    ap = argparse.ArgumentParser()
    ap.add_argument("pid")
    ap.add_argument("--tier", default=os.environ.get("VERIF_TIER") or "quick")
    ap.add_argument("--replay", default=None)
    a = ap.parse_args(argv)
    if os.environ.get("VERIF_TIER") in ("quick", "thorough") and "--tier" not in (argv or sys.argv):
        a.tier = os.environ["VERIF_TIER"]
    seed = int(os.environ.get("VERIF_SEED", "0") or 0)
    os.environ.setdefault("PYTHONHASHSEED", "0")
    try:
        mod = importlib.import_module("vf.props." + a.pid)
        rp = None
        if a.replay:
            with open(a.replay) as f:
                rp = json.load(f)
        run = Run(a.pid, a.tier, seed, level=getattr(mod, "LEVEL", "model_checking"), is_replay=bool(a.replay))
        if a.replay and isinstance(rp.get("scenario"), dict) and rp["scenario"].get("suite_node"):
            from vf import suite
            suite.replay_node(run, rp, (a.pid + ".",))
        elif a.replay:
            mod.check(run, replay=rp)
        else:
            mod.check(run)
        rc = run.finish()
    except MachineryError as e:
        print("MACHINERY-FAILURE %s: %s" % (a.pid, e))
        return 2
    except Exception:
        traceback.print_exc()
        print("MACHINERY-FAILURE %s: unexpected exception" % a.pid)
        return 2
    return rc
