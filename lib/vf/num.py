"""Exact-arithmetic sensing helpers: every IEEE float is an exact rational, so all
comparisons between observed floats (and against specification-supplied rationals) are
done with fractions.Fraction, never by rounding."""
from fractions import Fraction
import math
import numpy as np

CAP = 10 ** 6


def frac(x):
    """Exact rational value of a float / numpy scalar / 0-d array / int."""
    if isinstance(x, Fraction):
        return x
    if isinstance(x, (int, np.integer)):
        return Fraction(int(x))
    if isinstance(x, np.ndarray):
        x = x.reshape(())[()]
    if isinstance(x, np.longdouble) and np.finfo(np.longdouble).bits > 64:
        # exact: x = hi + lo with hi the nearest double and lo the (short) remainder
        if not np.isfinite(x):
            return Fraction(float(x))
        hi = np.float64(x)
        lo = np.float64(x - np.longdouble(hi))
        return Fraction(float(hi)) + Fraction(float(lo))
    return Fraction(float(x))


def canon_bytes(arr):
    """Bytes that identify the VALUE of an array (extended precision has padding bytes)."""
    a = np.ascontiguousarray(arr)
    if a.dtype == np.longdouble and np.finfo(np.longdouble).bits > 64:
        hi = a.astype(np.float64)
        lo = (a - hi.astype(np.longdouble)).astype(np.float64)
        return hi.tobytes() + lo.tobytes() + b"g" + str(a.shape).encode()
    return a.tobytes() + str(a.dtype).encode() + str(a.shape).encode()


def eps_of(dtype):
    return Fraction(float(np.finfo(np.dtype(dtype)).eps))


def units(obs, exp, scale, eps):
    """ceil(|obs-exp| / (eps*scale)) as an int capped at CAP; non-finite -> CAP."""
    try:
        if not np.isfinite(obs):
            return CAP
    except TypeError:
        pass
    err = abs(frac(obs) - exp)
    den = eps * scale
    if den == 0:
        return 0 if err == 0 else CAP
    u = err / den
    return int(min(CAP, math.ceil(u)))


def log10_class(err, scale):
    """ceil(log10(err/scale)) as an int; exact zero -> -99; non-finite -> 99."""
    try:
        if not np.isfinite(float(err)):
            return 99
    except (TypeError, OverflowError):
        return 99
    if scale == 0:
        return -99 if err == 0 else 99
    r = abs(frac(err)) / abs(frac(scale))
    if r == 0:
        return -99
    # ceil(log10(r)) exactly: smallest k with 10^k >= r
    k = int(math.floor(math.log10(float(r)))) - 1
    while Fraction(10) ** k < r:
        k += 1
    return max(-99, min(99, k))


def gap_units(a, b, scale_vals, dtype):
    """ceil(|a-b| / (eps * max(1, |scale_vals|...))) capped: distance in rounding units of unit-size-or-larger quantities."""
    fa, fb = frac(a), frac(b)
    if fa == fb:
        return 0
    sc = max([Fraction(1)] + [abs(frac(v)) for v in scale_vals])
    return int(min(CAP, math.ceil(abs(fa - fb) / (eps_of(dtype) * sc))))


def ulp_distance(a, b, dtype=None):
    """|a-b| in units of the spacing of floats at max(|a|,|b|) for dtype; capped."""
    dtype = np.dtype(dtype or getattr(a, "dtype", np.float64))
    fa, fb = frac(a), frac(b)
    if fa == fb:
        return 0
    m = max(abs(fa), abs(fb))
    sp = frac(np.spacing(np.asarray(float(m), dtype=dtype))) if dtype != np.longdouble else frac(np.spacing(np.longdouble(float(m))))
    if sp == 0:
        return CAP
    return int(min(CAP, math.ceil(abs(fa - fb) / sp)))


def ranks(values):
    """Map a collection of exact rationals to order-preserving ranks with 0 -> 0.
    Returns dict value->rank (negative values get negative ranks)."""
    vs = sorted(set(values) | {Fraction(0)})
    z = vs.index(Fraction(0))
    return {v: i - z for i, v in enumerate(vs)}


def sign(x):
    f = frac(x)
    return (f > 0) - (f < 0)
