"""Shared driver for the OdeSystem-level properties: run scenarios under the sensor,
validate every trace with the TLA+ monitor (spec/OdeTrace.tla), attribute the violated
clauses to properties by their prefix."""
import json
import traceback
from vf import scen, core


def _one(sc):
    try:
        lg, _ = scen.run(sc)
        return scen.normalise(sc, lg)
    except Exception:
        return {"id": sc["id"], "crash": traceback.format_exc()}


def run_traces(scs, procs=None):
    out = core.pool_map(_one, scs, procs=procs)
    crashed = [t for t in out if "crash" in t]
    if crashed:
        raise core.MachineryError("sensor crashed on scenario %s:\n%s" % (crashed[0]["id"], crashed[0]["crash"]))
    return out


def describe(sc):
    m = sc["method"]
    mname = m if isinstance(m, str) else "rich(%s,%d)" % (m["rich"], m["levels"])
    ops = []
    for op in sc["ops"]:
        o = op["op"]
        if o == "integrate":
            o += "(%s%s%s%s)" % ("t" if op.get("t") is not None else "", ",ev%d" % len(op["events"]) if op.get("events") else "",
                                 ",cb" if op.get("cbs") else "", ",fault" if op.get("fault") else "")
        ops.append(o)
    d = "fwd" if sc["tf"] > sc["t0"] else "bwd"
    return "%s %s %s dense=%d %s [%s]" % (mname, sc.get("dtype", "float64"), d, int(bool(sc.get("dense"))), sc.get("problem", "osc"), " ".join(ops))


def judge_traces(run, scs, traces, prefixes, name=None, shards=8):
    """Validate traces with OdeTrace.tla; record violations of clauses whose name starts with one of
    `prefixes` (e.g. ("C03.",)).  Returns the raw verdict."""
    v = run.judge("OdeTrace", {"traces": traces}, name=name or (run.pid + "_trace"), shards=shards, shard_key="traces")
    run.traces += len(traces)
    byid = {sc["id"]: sc for sc in scs}
    for b in v["bad"]:
        if not any(b["clause"].startswith(p) for p in prefixes):
            continue
        sc = byid[b["id"]]
        run.violation(b["clause"], describe(sc), {"event_index": b["at"], "event": b["ev"], "scenario": sc["id"]}, replay=sc)
    if run.tier == "thorough" and not getattr(run, "is_replay", False) and not getattr(run, "_suite_done", False):
        # thorough tier: the same clauses on the executions of the repository's own tests (vf.suite), once per run
        from vf import suite
        run._suite_done = True
        suite.phase(run, prefixes)
    return v


def replay_scenarios(replay):
    sc = replay.get("scenario")
    if not sc:
        raise core.MachineryError("replay file has no scenario")
    if isinstance(sc, dict) and "ops" in sc:
        return [sc]
    raise core.MachineryError("replay file scenario not understood")
