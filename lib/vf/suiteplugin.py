"""pytest plugin: every OdeSystem the repository's OWN tests construct is an observed execution.

Loaded with `-p vf.suiteplugin` (PYTHONPATH = /verif/lib : <tree>).  It replaces `desolver.OdeSystem` (and the name the
`solve_ivp` facade resolves) by the zero-hook sensor of vf.traced, one log per constructed system, frames every public call
made from the test (integrate / reset / assignments to dt, rtol, atol, tf, t0, method, constants / set_method / set_kick_vars)
as an API operation, and at the end of each test writes the normalised traces (vf.scen.normalise) as JSON lines to
$VF_SUITE_OUT/<worker>.jsonl.  The traces are then validated by the same TLA+ monitor (spec/OdeTrace.tla) that validates the
traces of the generated scenarios: the assertions of the repository's tests are replaced by the ~70 named clauses.

Nothing in the tests is changed, nothing in /repo is touched; a test that fails under observation still contributes the trace
up to the failure (its own verdict is irrelevant here).
"""
import copy
import json
import os

import numpy as np
import pytest

import desolver as de
import desolver.differential_system as ds
from desolver import integrators
from vf import traced, scen

_ORIG_ODE = de.OdeSystem
_MAX_EVENTS = 60000
_CUT = 6000
_LIVE = []            # logs of the systems constructed during the current test
_NODE = [None]
_COUNT = [0]


class _Rhs(traced.WrappedRhs):
    """WrappedRhs that passes every other attribute through to the user's function (equ_repr, md_repr, jac, ...)."""

    def __getattr__(self, name):
        if name.startswith("_fn") or name.startswith("_log"):
            raise AttributeError(name)
        return getattr(self._fn, name)


def family_of_class(cls):
    if issubclass(cls, integrators.RichardsonIntegratorTemplate):
        return "rich"
    if issubclass(cls, integrators.ExplicitSymplecticIntegrator):
        return "split"
    tf = np.asarray(cls.tableau_final)
    ti = np.asarray(cls.tableau_intermediate)
    explicit = all((ti[c, c + 1:] == 0.0).all() for c in range(ti.shape[0]))
    adaptive = tf.shape[0] == 2
    if explicit:
        return "adaptive" if adaptive else "fixed"
    return "adaptimp" if adaptive else "fixedimp"


class _FamilyRef(object):
    """Stands in for the scenario's method name: scen._full_state asks `family_of(lg.cur_method[0])`."""


_SETTABLE = ("dt", "rtol", "atol", "tf", "t0", "method", "constants")


class SuiteOdeSystem(traced.TracedOdeSystem):
    def __init__(self, equ_rhs, y0, *a, **kw):
        lg = traced.Log()
        lg.event_budget = 10 ** 9
        lg.rhs_budget = 10 ** 12
        lg.fault_plan = None
        lg.call_events = []
        lg.truncated = False
        lg.node = _NODE[0]
        base = 0
        if callable(equ_rhs):
            if isinstance(equ_rhs, traced._ORIG_DIFFRHS):
                c = copy.copy(equ_rhs)
                c.rhs = _Rhs(c.rhs, lg)
                base = int(c.nfev)
                equ_rhs = c
            else:
                equ_rhs = _Rhs(equ_rhs, lg)
        lg.rhs_done = base            # a re-used DiffRHS carries its count along
        prev = traced._CUR[0]
        traced._CUR[0] = lg
        object.__setattr__(self, "_vf_api", 1)
        try:
            super().__init__(lg, equ_rhs, y0, *a, **kw)
        finally:
            traced._CUR[0] = prev
        object.__setattr__(self, "_vf_api", 0)
        object.__setattr__(self, "_vf_y0", y0)
        try:
            object.__setattr__(self, "_vf_y0copy", np.array(y0, copy=True))
        except Exception:
            object.__setattr__(self, "_vf_y0copy", None)
        lg.cur_method = None
        lg.suite = {"dtype": str(np.asarray(self.t).dtype), "dense": bool(self.__dict__.get("_OdeSystem__dense_output", False)),
                    "t0": np.array(self.t[0], copy=True)}
        lg.emit("Api", op="new")
        lg.emit("Api", op="method")
        _LIVE.append((lg, self))

    # ---------------------------------------------------------------------------------------
    def _vf_snapshot(self):
        s = super()._vf_snapshot()
        s["jacReq"] = s["njev"]        # Jacobian requests made outside a framed call are not attributed here
        return s

    def _vf_family(self):
        try:
            return family_of_class(self.__dict__["_OdeSystem__method"])
        except Exception:
            return "unknown"

    def _vf_full(self):
        fl = scen._full_state(self, self._vf_y0copy, self._vf_y0) if self._vf_y0copy is not None else None
        if fl is not None:
            fl["family"] = self._vf_family()
        return fl

    def _vf_frame(self, op, fn, what=None):
        """Run fn() as one API operation (only the outermost public call of a test is framed)."""
        lg = self._vf_log
        if self.__dict__.get("_vf_api", 1) or not self.__dict__.get("_vf_ready", False):
            return fn()
        if len(lg.events) > _MAX_EVENTS:
            lg.truncated = True
            lg.enabled = False
        object.__setattr__(self, "_vf_api", 1)
        prev = traced._CUR[0]
        traced._CUR[0] = lg
        k = getattr(lg, "nops", 0)
        lg.nops = k + 1
        if what is None:
            lg.emit("Api", op=op, k=k)
        else:
            lg.emit("Api", op=op, k=k, what=what)
        err = None
        try:
            return fn()
        except BaseException as e:
            err = e
            raise
        finally:
            traced._CUR[0] = prev
            object.__setattr__(self, "_vf_api", 0)
            if err is not None:
                object.__setattr__(self, "_vf_depth", 0)
            try:
                lg.emit("ApiRet", op=op, k=k, err=scen._err_info(err), full=self._vf_full(), ncalls=0, site=None, truth=[])
            except Exception:
                import traceback
                lg.sensor_error = traceback.format_exc()[-800:]
                lg.truncated = True
                lg.enabled = False

    def integrate(self, t=None, callback=None, eta=False, events=None):
        if not self.__dict__.get("_vf_api", 1):
            evl = [] if events is None else ([events] if callable(events) else list(events))
            self._vf_log.call_events.append(evl)       # keeps the functions alive: id() stays unique
            if callback is not None:
                cbl = list(callback) if isinstance(callback, (tuple, list)) else [callback]
                callback = [traced.wrap_callback(f, self._vf_log, i) for i, f in enumerate(cbl)]
        sup = super().integrate
        return self._vf_frame("integrate", lambda: sup(t=t, callback=callback, eta=eta, events=events))

    def reset(self):
        sup = super().reset
        return self._vf_frame("reset", sup)

    def set_method(self, *a, **kw):
        sup = super().set_method
        return self._vf_frame("set", lambda: sup(*a, **kw), what="method")

    def set_kick_vars(self, *a, **kw):
        sup = super().set_kick_vars
        return self._vf_frame("set", lambda: sup(*a, **kw), what="kick")

    def __setattr__(self, name, val):
        if name in _SETTABLE and self.__dict__.get("_vf_ready", False) and not self.__dict__.get("_vf_api", 1):
            sup = super().__setattr__
            return self._vf_frame("set", lambda: sup(name, val), what=name)
        return super().__setattr__(name, val)


def _install():
    de.OdeSystem = SuiteOdeSystem
    ds.OdeSystem = SuiteOdeSystem
    ds.DenseOutput = traced.LoggedDenseOutput
    ds.handle_events = traced._logged_handle_events
    ds.DiffRHS = traced.LoggedDiffRHS
    de.DiffRHS = traced.LoggedDiffRHS


def _flush():
    out_dir = os.environ.get("VF_SUITE_OUT")
    live = list(_LIVE)
    del _LIVE[:]
    if not out_dir:
        return
    os.makedirs(out_dir, exist_ok=True)
    worker = os.environ.get("PYTEST_XDIST_WORKER", "main")
    with open(os.path.join(out_dir, worker + ".jsonl"), "a") as f:
        for (lg, system) in live:
            _COUNT[0] += 1
            tid = "%s#%d" % (lg.node, _COUNT[0])
            rec = {"id": tid, "node": lg.node}
            napi = sum(1 for e in lg.events if e["e"] == "IntegrateCall")
            if lg.truncated:
                rec["skipped"] = getattr(lg, "sensor_error", None) or ("longer than %d events" % _MAX_EVENTS)
            elif napi == 0:
                rec["skipped"] = "no integrate call"
            else:
                if not _cut(lg):
                    rec["skipped"] = "first call longer than %d events" % _CUT
                    f.write(json.dumps(rec) + "\n")
                    continue
                try:
                    sc = {"id": tid, "dtype": lg.suite["dtype"], "dense": lg.suite["dense"], "t0": lg.suite["t0"],
                          "method": None, "expectFail": [], "mayFail": True}
                    # an execution cut short by a failing assertion / expected exception: close open frames is not needed, the
                    # monitor only reports `EveryCallReturns` for frames left open, which cannot happen (every call returns or raises)
                    rec["trace"] = _normalise(sc, lg, system)
                    rec["ncalls"] = sum(1 for e in lg.events if e["e"] == "IntegrateCall" and e.get("depth") == 1)
                except Exception as e:          # the sensor met something it cannot express: recorded, never a verdict
                    import traceback
                    rec["skipped"] = "sensor: " + traceback.format_exc()[-600:]
            f.write(json.dumps(rec) + "\n")


class _EvRef(object):
    def __init__(self, idx):
        self._vf_idx = idx


def _number_events(lg):
    """Event functions get one number per trace (identity across calls); the terminal flags of a call are listed by that number."""
    gid = {}

    def g(fn):
        if id(fn) not in gid:
            gid[id(fn)] = len(gid)
        return gid[id(fn)]
    callno = -1
    for e in lg.events:
        n = e["e"]
        if n == "IntegrateCall" and e.get("depth") == 1:
            callno += 1
            evl = lg.call_events[callno] if callno < len(lg.call_events) else []
            idx = [g(f) for f in evl]
            flags = [False] * len(gid)
            for f, i in zip(evl, idx):
                flags[i] = bool(getattr(f, "is_terminal", False))
            e["term"] = flags
        elif n == "EventRec" and not isinstance(e["ev"], _EvRef):
            e["ev"] = _EvRef(g(e["ev"]))
        elif n == "ApiRet" and e.get("full"):
            e["full"]["events"] = [(t, f if isinstance(f, _EvRef) else _EvRef(g(f))) for (t, f) in e["full"]["events"]]


def _cut(lg):
    """The monitor's state holds every recorded row, so its cost grows with the square of the number of steps: a long execution is
    validated up to the last API return within the first _CUT events (a prefix of an execution is an execution)."""
    if len(lg.events) <= _CUT:
        return True
    last = -1
    for k, e in enumerate(lg.events[:_CUT]):
        if e["e"] == "ApiRet":
            last = k
    if last < 0 or not any(e["e"] == "IntegrateCall" for e in lg.events[:last]):
        return False
    del lg.events[last + 1:]
    return True


def _normalise(sc, lg, system):
    fam = system._vf_family()
    _number_events(lg)
    orig = scen.family_of
    scen.family_of = lambda m: fam if m is None else orig(m)
    try:
        return scen.normalise(sc, lg)
    finally:
        scen.family_of = orig


@pytest.hookimpl(tryfirst=True)
def pytest_runtest_setup(item):
    _NODE[0] = item.nodeid


@pytest.hookimpl(trylast=True)
def pytest_runtest_teardown(item, nextitem):
    _flush()


def pytest_configure(config):
    _install()
