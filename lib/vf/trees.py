"""The tree system  y_tau' = PROD_{sigma child of tau} y_sigma  built from the table TLC generates
(spec/RootedTrees.tla), and one real step of a shipped integrator on it."""
from fractions import Fraction
import numpy as np
import desolver as de
from vf import num


class TreeSystem(object):
    def __init__(self, trees, dtype, bicolour=False):
        self.trees = trees
        self.n = len(trees)
        self.dtype = np.dtype(dtype)
        maxk = max([len(t["kids"]) for t in trees] + [1])
        K = np.full((self.n, maxk), self.n, dtype=np.int64)     # pad -> the constant 1
        for i, t in enumerate(trees):
            for j, k in enumerate(t["kids"]):
                K[i, j] = k - 1
        self.K = K
        self.bicolour = bicolour
        self.dim = 2 * self.n if bicolour else self.n

    def rhs(self, t, y):
        one = np.ones((1,), dtype=y.dtype)
        if not self.bicolour:
            ye = np.concatenate([y, one])
            return np.prod(ye[self.K], axis=1)
        q, p = y[:self.n], y[self.n:]
        dq = np.prod(np.concatenate([p, one])[self.K], axis=1)      # q-trees have p-coloured children
        dp = np.prod(np.concatenate([q, one])[self.K], axis=1)
        return np.concatenate([dq, dp])

    def jac(self, t, y):
        n = self.n
        J = np.zeros((self.dim, self.dim), dtype=y.dtype)

        def fill(rows_off, cols_off, src):
            ye = np.concatenate([src, np.ones((1,), dtype=y.dtype)])
            for i, tr in enumerate(self.trees):
                kids = [k - 1 for k in tr["kids"]]
                for a, ka in enumerate(kids):
                    prod = 1.0
                    for b, kb in enumerate(kids):
                        if b != a:
                            prod = prod * ye[kb]
                    J[rows_off + i, cols_off + ka] += prod
        if not self.bicolour:
            fill(0, 0, y)
        else:
            fill(0, n, y[n:])
            fill(n, 0, y[:n])
        return J

    def exact(self, i, h):
        t = self.trees[i % self.n]
        return Fraction(h) ** t["ord"] / t["gamma"]


def one_step(cls, ts, h, tol=None, prestep=None):
    """One real step of size h from y = 0 at t = 0.  Returns (y1, err_est or None)."""
    dt = ts.dtype
    big = 1e30
    y0 = np.zeros((ts.dim,), dtype=dt)

    def f(t, y):
        return ts.rhs(t, y)
    f.jac = ts.jac
    rhs = de.DiffRHS(f)
    kw = dict(dtype=dt, rtol=(tol if tol is not None else big), atol=(tol if tol is not None else big))
    integ = cls((ts.dim,), **kw)
    hh = np.asarray(h, dtype=dt)
    t0 = np.asarray(0.0, dtype=dt)
    implicit = bool(getattr(integ, "is_implicit", False)) and not isinstance(integ, de.integrators.RichardsonIntegratorTemplate)
    if implicit:
        integ.initial_state = y0.copy()
        integ.initial_time = t0
        integ.initial_rhs = rhs(t0, y0)
        out = integ.step(rhs, t0, y0, {}, hh)
        dT, dY = out[1]
        ok = bool(integ.solver_dict.get("newton_iteration_success", True))
    else:
        if prestep is not None:
            # the same integrator object first takes a trial step of another size from the same point (discarded)
            integ(rhs, t0, y0, {}, np.asarray(prestep, dtype=dt))
        out = integ(rhs, t0, y0, {}, hh)
        dT, dY = out[1]
        ok = True
    est = None
    if hasattr(integ, "get_error_estimate") and getattr(integ, "tableau_final", None) is not None and np.shape(integ.tableau_final)[0] == 2:
        est = np.asarray(integ.get_error_estimate())
    return np.asarray(dY), est, (num.frac(dT) == num.frac(hh)), ok
