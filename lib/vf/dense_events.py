"""Sensing for C06 (dense output), C07 and C08 (events): runs a scenario under the zero-hook sensor and
extracts, in exact arithmetic, the facts that spec/DenseJudge.tla and spec/EventJudge.tla decide on.
No interpolation, root finding or integration is re-implemented here: the user's right-hand side and
event functions are evaluated at recorded states, recorded values are compared exactly."""
from fractions import Fraction
import math
import traceback
import numpy as np

from vf import scen, num, traced


def _exact_solution(problem, t):
    """Closed-form rational solutions (y(0) = 1): the same definitions as spec/Accuracy.tla."""
    t = num.frac(t)
    if problem == "rat":
        return 1 / (1 + t)
    if problem == "tdep":
        return 1 / (1 + t * t)
    return None


def _m4_bound(problem, ts, ys):
    if problem == "rat":
        ymax = max(abs(num.frac(v)) for v in ys)
        return 24 * ymax ** 5
    if problem == "tdep":
        return Fraction(24)
    return None


def _lipschitz(problem, t, y):
    if problem == "rat":
        return 2 * abs(num.frac(y))
    if problem == "tdep":
        return 4 * abs(num.frac(t)) * abs(num.frac(y))
    return Fraction(0)


class _Recorder(object):
    def __init__(self, orig, log):
        self._o = orig
        self._log = log

    def __call__(self, t):
        self._log.append(self._o)
        return self._o(t)

    def grad(self, t):
        return self._o.grad(t)

    def __getattr__(self, n):
        return getattr(self._o, n)


def dense_obs(sc, system, f, const_marks=()):
    dt = np.dtype(sc.get("dtype", "float64"))
    eps = num.eps_of(dt)
    sol = system.sol
    t = np.array(system.t, copy=True)
    y = np.array(system.y, copy=True)
    fam = scen.family_of(sc["method"])
    rich = fam == "rich"
    out = {"rich": rich, "queries": [], "pieces": [], "mids": [], "ok": True}
    if sol is None or len(t) < 2:
        return out
    pieces = list(sol.y_interpolants)
    # pieces of both orientations: some integrate() call ran against an earlier one, the passes overlap
    orient = {(num.frac(p.t1) > num.frac(p.t0)) for p in pieces if hasattr(p, "t0") and hasattr(p, "t1") and num.frac(p.t1) != num.frac(p.t0)}
    out["turned"] = len(orient) > 1
    log = []
    sol.y_interpolants = [_Recorder(p, log) for p in pieces]
    it = scen.Interner()
    qs = []
    for i in range(len(t)):
        qs.append(("grid", i, t[i]))
    for i in range(len(t) - 1):
        for fr in (0.5, 0.25, 0.75):
            qs.append(("inner", i, t[i] + (t[i + 1] - t[i]) * np.asarray(fr, dtype=dt)))
    for _, _, q in qs:
        it.see(q)
    for p in pieces:
        it.see(getattr(p, "t0", None))
        it.see(getattr(p, "t1", None))
    it.freeze()
    vals = []
    try:
        for kind, i, q in qs:
            del log[:]
            v = np.array(sol(q), copy=True)
            served = log[-1] if log else None
            vals.append((kind, i, q, v, served))
        vec = np.array(sol(np.array([q for _, _, q in qs], dtype=dt)), copy=True)
    finally:
        sol.y_interpolants = pieces
    rt, at = sc.get("rtol") or 1e-6, sc.get("atol") or 1e-6
    for k, (kind, i, q, v, served) in enumerate(vals):
        lo = it.r(served.t0) if served is not None and hasattr(served, "t0") else 0
        hi = it.r(served.t1) if served is not None and hasattr(served, "t1") else 0
        rec = {"q": it.r(q), "lo": lo, "hi": hi, "kind": kind, "inRange": True,
               "vecAgree": bool(np.array_equal(vec[k], v)), "exact": True, "tolUnits": 0}
        rec["outUnits"] = 0
        if served is not None and hasattr(served, "t0") and hasattr(served, "t1"):
            a_, b_ = sorted((num.frac(served.t0), num.frac(served.t1)))
            fq = num.frac(q)
            if not (a_ <= fq <= b_):
                near = a_ if fq < a_ else b_
                rec["outUnits"] = num.gap_units(q, near, [q, served.t0, served.t1], dt)
        rec["amb"] = False
        if kind == "grid":
            rec["exact"] = bool(num.canon_bytes(v) == num.canon_bytes(y[i]))
            if out["turned"]:
                # a time recorded in one pass may lie inside a step of another pass (or be recorded there with another state): "the
                # recorded state" at that time is then not unique.  Unique = every piece containing it has it as an end with this state.
                fq = num.frac(q)
                for p in pieces:
                    if not (hasattr(p, "t0") and hasattr(p, "t1")):
                        continue
                    a_, b_ = num.frac(p.t0), num.frac(p.t1)
                    if min(a_, b_) <= fq <= max(a_, b_):
                        end_state = p.p0 if fq == a_ else (p.p1 if fq == b_ else None)
                        if end_state is None or num.canon_bytes(end_state) != num.canon_bytes(y[i]):
                            rec["amb"] = True
            if rich:
                from vf import twins
                rec["tolUnits"] = twins.tol_units(v, y[i], rt, at)
        out["queries"].append(rec)
    prev = None
    for ip, p in enumerate(pieces):
        if not all(hasattr(p, a) for a in ("t0", "t1", "p0", "p1", "m0", "m1")):
            continue
        # the right-hand side of a piece is the user's function with the constants in force when the piece was made
        consts = dict(sc.get("constants") or {})
        for n0, c in const_marks:
            if ip >= n0:
                consts = c
        f0 = f(p.t0, p.p0, **consts)
        f1 = f(p.t1, p.p1, **consts)

        def su(m, fv):
            worst = 0
            for a, b in zip(np.asarray(m).reshape(-1), np.asarray(fv).reshape(-1)):
                worst = max(worst, num.units(a, num.frac(b), max(Fraction(1), abs(num.frac(b))), eps))
            return worst
        joins = True
        join_tol = 0
        if prev is not None:
            joins = bool(num.frac(prev.t1) == num.frac(p.t0) and num.canon_bytes(prev.p1) == num.canon_bytes(p.p0))
            from vf import twins
            join_tol = max(twins.tol_units(prev.p1, p.p0, rt, at), num.gap_units(prev.t1, p.t0, [p.t0], dt))
        from vf import twins as _tw
        out["pieces"].append({"m0Units": su(p.m0, f0), "m1Units": su(p.m1, f1), "joins": joins, "joinTol": int(join_tol),
                              "m0Tol": _tw.tol_units(p.m0, f0, rt, at), "m1Tol": _tw.tol_units(p.m1, f1, rt, at)})
        prev = p
    prob = sc.get("problem", "osc")
    if prob in ("rat", "tdep") and not rich and not out["turned"]:
        m4 = _m4_bound(prob, t, y[:, 0])
        for i in range(len(t) - 1):
            mid = t[i] + (t[i + 1] - t[i]) * np.asarray(0.5, dtype=dt)
            v = sol(mid)
            err = abs(num.frac(np.asarray(v).reshape(-1)[0]) - _exact_solution(prob, mid))
            eL = abs(num.frac(y[i, 0]) - _exact_solution(prob, t[i]))
            eR = abs(num.frac(y[i + 1, 0]) - _exact_solution(prob, t[i + 1]))
            h = abs(num.frac(t[i + 1]) - num.frac(t[i]))
            L = max(_lipschitz(prob, t[i], y[i, 0]), _lipschitz(prob, t[i + 1], y[i + 1, 0]))
            bound = h ** 4 * m4 / 384 + eL + eR + Fraction(3, 20) * h * L * (eL + eR) + 64 * eps
            out["mids"].append({"quot": int(min(num.CAP, math.ceil(err / bound)))})
    return out


def event_obs(sc, lg, system, f):
    dt = np.dtype(sc.get("dtype", "float64"))
    eps = num.eps_of(dt)
    op = sc["ops"][0]
    specs = op.get("events") or []
    raw = [scen.make_event(e, dt) for e in specs]
    api = [e for e in lg.events if e["e"] == "ApiRet" and e.get("op") == "integrate"]
    if not api:
        return {"steps": [], "recs": [], "truths": [], "ok": False}
    first = api[0]
    full = first["full"]
    t, y = full["t"], full["y"]
    fwd = bool(len(t) < 2 or t[-1] > t[0])
    if len(t) >= 2:
        fwd = bool(num.frac(t[-1]) > num.frac(t[0]))
    recs_raw = [(te, fn) for (te, fn) in full["events"]]
    sol = system.__dict__.get("_OdeSystem__sol")

    def g_of(j, tt, yy):
        if specs[j]["kind"] == "dstate":
            return raw[j](tt, yy, f(tt, yy))
        return raw[j](tt, yy)
    steps = []
    for i in range(len(t) - 1):
        lo, hi = sorted((num.frac(t[i]), num.frac(t[i + 1])))
        for j in range(len(specs)):
            g0, g1 = g_of(j, t[i], y[i]), g_of(j, t[i + 1], y[i + 1])
            s0, s1 = num.sign(g0), num.sign(g1)
            n_in = sum(1 for (te, fn) in recs_raw if getattr(fn, "_vf_idx", -1) == j and lo <= num.frac(te) <= hi)
            steps.append({"ev": j, "change": bool(s0 * s1 < 0), "rising": bool(s0 < 0), "dirn": int(specs[j].get("dir", 0)),
                          "nInside": int(n_in), "fwd": fwd})
    # recorded events (after the first integrate op only)
    evs = list(system.events)[:len(recs_raw)]
    recs = []
    # steps that a terminal event rolled back: their events were located on an interpolant that the landing sub-steps replaced
    replaced = [(num.frac(e["prev"]), num.frac(e["next"])) for e in lg.events if e["e"] == "HandleEventsRet" and e["terminate"]]
    for (te, fn), st in zip(recs_raw, evs):
        j = getattr(fn, "_vf_idx", -1)
        if j < 0 or j >= len(specs):
            continue
        sp = specs[j]
        s = abs(Fraction(sp.get("s", 1.0)))
        c = num.frac(np.asarray(sp["c"], dtype=dt))
        ye = np.asarray(st.y)
        fe = f(te, ye)
        dirsign = 1 if fwd else -1
        if sp["kind"] in ("time", "timeoff"):
            gval = raw[j](te, ye) if sp["kind"] == "time" else 0.0
            scale = s * eps * max(Fraction(1), abs(c), abs(num.frac(te)))
            slope = Fraction(sp.get("s", 1.0)) * dirsign
            root_gap = num.gap_units(te, np.asarray(sp["c"], dtype=dt), [sp["c"]], dt)
        else:
            comp = sp.get("comp", 0)
            gval = g_of(j, te, ye)
            if sp["kind"] == "state":
                yv, dv = num.frac(ye[comp]), num.frac(fe[comp])
            else:
                # derivative events are defined on the dense solution's gradient; only evaluable when the solution is kept
                if sol is not None and sc.get("dense") and len(sol) > 0:
                    gval = raw[j](te, ye, sol.grad(te))
                else:
                    gval = 0.0
                yv, dv = num.frac(fe[comp]), Fraction(1)
            # the residual at the reported time cannot be smaller than the event function's change over one spacing of the times there
            # (where the times are large compared with the step that spacing, eps |t_e|, dominates)
            scale = s * eps * (max(Fraction(1), abs(yv), abs(c)) * max(Fraction(1), abs(dv)) + abs(dv) * abs(num.frac(te)))
            slope = Fraction(sp.get("s", 1.0)) * dv * dirsign if sp["kind"] == "state" else Fraction(0)
            root_gap = -1
        g_units = int(min(num.CAP, math.ceil(abs(num.frac(gval)) / scale))) if np.isfinite(float(gval)) else num.CAP
        ysol = "off"
        if sol is not None and len(sol) > 0 and sc.get("dense"):
            try:
                sv = sol(te)
                if num.canon_bytes(sv) == num.canon_bytes(ye):
                    ysol = "exact"
                elif any(min(a, b) <= num.frac(te) <= max(a, b) for (a, b) in replaced):
                    h = max(abs(a - b) for (a, b) in replaced if min(a, b) <= num.frac(te) <= max(a, b))
                    dmax = max(abs(num.frac(u) - num.frac(w)) for u, w in zip(np.asarray(sv).reshape(-1), np.asarray(ye).reshape(-1)))
                    ymax = max([Fraction(1)] + [abs(num.frac(w)) for w in np.asarray(ye).reshape(-1)])
                    # the landing sub-steps re-integrate the rolled-back step: they agree with the interpolant the event was located on
                    # to the Hermite error (h^4) or, for a low-order adaptive pair, to the local error the controller admits
                    from vf import twins
                    adaptive_ok = sc.get("rtol") is not None and twins.tol_units(sv, ye, sc["rtol"], sc.get("atol") or sc["rtol"]) <= 10
                    ysol = "exact" if (dmax <= ymax * h ** 4 or adaptive_ok) else "differs"
                else:
                    ysol = "differs"
            except Exception:   # noqa
                ysol = "differs"
        root_tol = -1
        prob = sc.get("problem", "osc")
        if sp["kind"] == "state" and prob == "rat" and sc["t0"] == 0.0 and c != 0:
            # y = 1/(1+t) = c  =>  t* = 1/c - 1 ; |y'(t*)| = c^2
            tstar = 1 / c - 1
            tol = Fraction(sc.get("rtol") or 1e-6)
            # the root is located on the cubic Hermite dense output: its error h^4 M4 / 384 adds to the integrator's
            hs = [abs(num.frac(t[i + 1]) - num.frac(t[i])) for i in range(len(t) - 1)
                  if min(num.frac(t[i]), num.frac(t[i + 1])) <= num.frac(te) <= max(num.frac(t[i]), num.frac(t[i + 1]))]
            hh = max(hs) if hs else Fraction(0)
            root_tol = int(min(num.CAP, math.ceil(abs(num.frac(te) - tstar) / ((tol + hh ** 4 * 24 / 384) / (c * c) + 64 * eps))))
        sense = "flat" if slope == 0 else ("rising" if slope > 0 else "falling")
        recs.append({"ev": j, "gUnits": g_units, "ySol": ysol, "rootGap": int(root_gap), "rootTol": root_tol, "sense": sense,
                     "dirn": int(sp.get("dir", 0)), "fwd": fwd})
    truths = []
    t_end = t[-1]
    t_start = t[0]
    for tr in first.get("truth", []):
        j = tr["ev"]
        c = tr["c"]
        gaps = [num.gap_units(te, c, [c], dt) for (te, fn) in recs_raw if getattr(fn, "_vf_idx", -1) == j]
        cf = num.frac(c)
        beyond = (cf - num.frac(t_end)) * (1 if fwd else -1)
        reached = bool(beyond <= 0 or num.gap_units(t_end, c, [c], dt) <= 64)
        strictly_inside = bool((cf - num.frac(t_start)) * (1 if fwd else -1) > 0 and beyond < 0)
        d = tr["dir"]
        rising = (tr["s"] > 0) == fwd
        must = bool(strictly_inside and (d == 0 or (fwd and ((d > 0) == rising))))
        truths.append({"ev": j, "gaps": [int(x) for x in gaps], "reached": reached, "mustReport": must})
    return {"steps": steps, "recs": recs, "truths": truths, "ok": first.get("err") is None}


def observe(sc):
    try:
        lg, system = scen.run(sc, keep_system=True)
        tr = scen.normalise(sc, lg)
        dt = np.dtype(sc.get("dtype", "float64"))
        f = scen.problem(sc.get("problem", "osc"), dt)
        ev = event_obs(sc, lg, system, f) if sc["ops"][0].get("events") else None
        dn = dense_obs(sc, system, f, getattr(lg, "const_marks", ())) if sc.get("dense") else None
        rets = [e for e in lg.events if e["e"] == "ApiRet"]
        ok = bool(rets) and rets[-1].get("err") is None
        if dn is not None:
            dn["ok"] = ok
        return {"id": sc["id"], "trace": tr, "ev": ev, "dense": dn}
    except Exception:
        return {"id": sc["id"], "crash": traceback.format_exc()}
