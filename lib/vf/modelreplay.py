"""Spec -> code for the main design model: behaviours of OdeSystem.tla, produced by TLC in simulation mode through the history
variable of OdeSystemSim.tla, are replayed on the real OdeSystem - same API script, same callback assignments, faults injected at the
model's crash points - and the projected state (recorded times, status, events, dense pieces, step) is compared with the model's
prediction at every API return.  Times are ticks x 1/4 (dyadic: fixed-step rows are exact)."""
import json
import os
import re
import numpy as np
from fractions import Fraction
from vf import core, traced

S = 0.25
# the roots of the event functions come with each behaviour (log[0]["roots"], the model's ROOTS constant): one source of truth
STATUS = {"Integration has not been run.": "notrun", "Integration completed successfully.": "done",
          "Integration terminated upon finding a triggered event.": "event"}


class Injected(Exception):
    pass


class Budget(BaseException):      # not an Exception: integrate() must not wrap it
    pass


def behaviours(cfg, num, seed, depth=120, timeout=900):
    """Run TLC -simulate on OdeSystemSim with `cfg`; return the distinct logged behaviours."""
    r = core.run_tlc("OdeSystemSim", cfg, workers=1, timeout=timeout, simulate="num=%d" % num, depth=depth, seed=seed + 1)
    out = set()
    for m in re.finditer(r'<<"VFLOG", "((?:[^"\\]|\\.)*)">>', r.out):
        out.add(m.group(1).encode().decode("unicode_escape"))
    if not out:
        raise core.MachineryError("no behaviours from OdeSystemSim/%s:\n%s" % (cfg, r.out[-2000:]))
    return [json.loads(x) for x in sorted(out)], r


def scripted_class(script, st):
    """An integrator whose accepted step and proposed next step are played back from the model's behaviour (the integrator is the
    environment of the design model; with ADAPTIVE = TRUE TLC chooses what it returns).  The script lives in a closure shared by every
    instance: the system re-creates its integrator object on reset, on failures and when settings change."""
    import desolver as de
    from desolver.utilities.interpolation import CubicHermiteInterp

    class Scripted(de.integrators.IntegratorTemplate):
        order = 1
        symplectic = False

        def __init__(self, sys_dim, dtype=None, rtol=None, atol=None, device=None):
            super().__init__()
            self.dim, self.dtype, self.rtol, self.atol, self.device = sys_dim, dtype, rtol, atol, device
            self.dState = self.dTime = None
            self.final_rhs = None

        @property
        def is_adaptive(self):
            return True

        def __call__(self, rhs, initial_time, initial_state, constants, timestep):
            f0 = rhs(initial_time, initial_state, **constants)      # an injected fault of this step raises here
            if not script:
                st["mism"].append({"what": "IntegratorCalls", "code": "one more integrator call than the model's behaviour has steps"})
                raise Budget()
            e = script.pop(0)
            if Fraction(float(timestep)) != Fraction(e["h"]) * Fraction(S) and not st["approx"]:
                st["mism"].append({"what": "RequestedStep", "model": e["h"] * S, "code": float(timestep), "nrows": e["nrows"]})
            self.initial_time, self.initial_state, self.initial_rhs = initial_time, initial_state, f0
            self.dTime = np.asarray(e["dT"] * S, dtype=np.float64) if not st["approx"] else np.asarray(min(abs(float(timestep)), abs(e["dT"] * S)) * np.sign(float(timestep)))
            self.dState = self.dTime * f0
            self.final_rhs = rhs(initial_time + self.dTime, initial_state + self.dState, **constants)
            return np.asarray(e["newDt"] * S, dtype=np.float64), (self.dTime, self.dState)

        def dense_output(self):
            return (self.initial_time + self.dTime,
                    CubicHermiteInterp(self.initial_time, self.initial_time + self.dTime, self.initial_state,
                                       self.initial_state + self.dState, self.initial_rhs, self.final_rhs))
    return Scripted


class _Served(object):
    """Recording proxy for one dense piece: notes its index when it is evaluated."""
    def __init__(self, k, piece, log):
        self._k, self._p, self._log = k, piece, log

    def __call__(self, t):
        self._log.append(self._k)
        return self._p(t)

    def __getattr__(self, n):
        return getattr(self._p, n)


def _events(roots_of_model):
    fns = []
    for k in sorted({r["ev"] for r in roots_of_model}):
        roots = [r["t"] * S for r in roots_of_model if r["ev"] == k]

        def g(t, y, _roots=roots, **kw):
            v = 1.0
            for r in _roots:
                v = v * (t - r)
            return v
        g._vf_ev = k
        g.is_terminal = any(r["term"] for r in roots_of_model if r["ev"] == k)
        fns.append(g)
    return fns


def replay(log, method):
    import desolver as de
    init = log[0]
    st = {"arm": None, "depth": 0, "cbs": [], "cb_under": 0, "in_call": False, "mism": [], "approx": False}
    script = []
    holder = {}

    def nrows():
        return len(holder["sys"])

    def maybe_raise(site):
        a = st["arm"]
        # while event functions are examined the library has stepped its row counter back by one
        if a is not None and st["in_call"] and a[0] == site and nrows() == a[1] - (1 if site == "events" else 0) and st["depth"] == a[2]:
            st["arm"] = None
            raise Injected("injected at %s" % (a,))

    def rhs(t, y):
        st["nrhs"] = st.get("nrhs", 0) + 1
        if st["nrhs"] > 40000:         # the longest behaviour needs a few hundred evaluations
            raise Budget()
        maybe_raise("loop")
        return np.array([y[1], -y[0]])

    dense = bool(init.get("dense", True))
    sys_ = de.OdeSystem(rhs, y0=np.array([1.0, 0.0]), dense_output=dense, t=(init["t0"] * S, init["tf"] * S), dt=init["dt0"] * S)
    holder["sys"] = sys_
    if method == "scripted":
        import warnings
        with warnings.catch_warnings():
            warnings.simplefilter("ignore")
            sys_.set_method(scripted_class(script, st))
    else:
        sys_.method = method
    inner = sys_.integrate

    def integrate(*a, **kw):      # instance attribute: the library's nested landing call goes through it as well
        st["depth"] += 1
        try:
            return inner(*a, **kw)
        finally:
            st["depth"] -= 1
    sys_.integrate = integrate
    evfns = _events(init["roots"])
    terminal = {r["ev"] for r in init["roots"] if r["term"]}

    def wrap_ev(g):
        def h(t, y, **kw):
            st["nev"] = st.get("nev", 0) + 1
            if st["nev"] > 400000:
                raise Budget()
            maybe_raise("events")
            return g(t, y, **kw)
        h._vf_ev = g._vf_ev
        h.is_terminal = g.is_terminal
        return h
    evw = [wrap_ev(g) for g in evfns]

    def callback(s):
        maybe_raise("post")
        if not st["cbs"]:
            st["cb_under"] += 1
            return
        c = st["cbs"].pop(0)
        if c != 0:
            s.dt = c * S
    mism = []
    i = 1
    ncall = 0
    approx = False          # a terminal event has been landed on: later times are roots found numerically
    while i < len(log):
        e = log[i]
        if e["k"] == "reset":
            sys_.reset()
            approx = False
            st["approx"] = False
            i += 1
        elif e["k"] == "call":
            ncall += 1
            j = i + 1
            cbs, fault = [], None
            del script[:]
            while log[j]["k"] != "ret":
                if log[j]["k"] == "step":
                    script.append(log[j])
                elif log[j]["k"] == "cb":
                    cbs.append(log[j]["set"])
                elif log[j]["k"] == "fault":
                    fault = log[j]
                j += 1
            st["cbs"], st["cb_under"], st["arm"] = cbs, 0, None
            if fault is not None:
                site = fault["pc"]
                if site == "post" and not fault["cb"]:
                    site = "loop"           # no user code runs there: the next crash point with the same recorded state
                if (site == "loop" and fault["atTarget"]) or (site == "post" and not e["cb"]):
                    return {"skipped": "fault at a position without user code", "mismatches": mism, "calls": ncall - 1}
                st["arm"] = (site, fault["nrows"], fault["depth"])
            kw = {"t": (e["target"] * S if abs(e["target"]) != 999 else float("inf") * (1 if e["target"] > 0 else -1))}      # 999: OdeSystem!Infinity
            if e["ev"]:
                kw["events"] = evw
            if e["cb"]:
                kw["callback"] = callback
            raised = None
            st["in_call"] = True
            try:
                with traced.wall_clock(120.0):
                    sys_.integrate(**kw)
            except de.exception_types.FailedIntegration as x:
                raised = x
            except Exception as x:      # noqa -- anything else the call raises is an observation (the model predicts a completed call or a wrapped failure)
                mism.append({"call": ncall, "what": "Raised", "model": fault is not None, "code": "not an integration failure: " + repr(x)[:160]})
                return {"skipped": None, "mismatches": mism, "calls": ncall}
            except (Budget, traced.BudgetExceeded):
                for mm in st["mism"]:
                    mm["call"] = ncall
                    mism.append(mm)
                if not st["mism"]:
                    mism.append({"call": ncall, "what": "RunTerminates", "code": "evaluation budget exceeded"})
                return {"skipped": None, "mismatches": mism, "calls": ncall}
            finally:
                st["in_call"] = False
            if (fault is not None) != (raised is not None):
                mism.append({"call": ncall, "what": "Raised", "model": fault is not None, "code": repr(raised)[:120]})
            c = raised
            while c is not None and not isinstance(c, Injected):
                c = c.__cause__
            if raised is not None and c is None:
                mism.append({"call": ncall, "what": "FailureCause", "code": repr(raised.__cause__)[:160]})
            for mm in st["mism"]:
                mm["call"] = ncall
                mism.append(mm)
            st["mism"] = []
            if method == "scripted" and script and raised is None:
                mism.append({"call": ncall, "what": "IntegratorCalls", "model_left": len(script)})
            if st["cbs"] or st["cb_under"]:
                mism.append({"call": ncall, "what": "CallbackCount", "model_left": len(st["cbs"]), "code_extra": st["cb_under"]})
            i = j
        elif e["k"] == "ret":
            p = e["p"]
            if any(ev["ev"] in terminal for ev in p["events"]):
                approx = True
                st["approx"] = True
            tol = (lambda a, b: abs(a - b) <= 1e-9 * max(1.0, abs(b))) if approx else (lambda a, b: Fraction(float(a)) == Fraction(float(b)))
            t = [float(x) for x in sys_.t]
            if len(t) != len(p["rows"]) or not all(tol(a, b * S) for a, b in zip(t, p["rows"])):
                mism.append({"call": ncall, "what": "Rows", "model": [b * S for b in p["rows"]], "code": t})
            stc = STATUS.get(sys_.integration_status, "failed")
            if stc != p["status"]:
                mism.append({"call": ncall, "what": "Status", "model": p["status"], "code": stc})
            evc = [(float(x.t), getattr(x.event, "_vf_ev", -1)) for x in sys_.events]
            if len(evc) != len(p["events"]) or not all(k == m["ev"] and abs(a - m["t"] * S) <= 1e-9 * max(1.0, abs(a)) for (a, k), m in zip(evc, p["events"])):
                mism.append({"call": ncall, "what": "Events", "model": [(m["t"] * S, m["ev"]) for m in p["events"]], "code": evc})
            sol = sys_.sol
            ends = [float(x) for x in (sol.t_eval or [])] if sol is not None else []
            # without dense output the pieces exist only while events are examined (sol is None for the user)
            if dense and (len(ends) != len(p["sol"]) or not all(tol(a, m["b"] * S) for a, m in zip(ends, p["sol"]))):
                mism.append({"call": ncall, "what": "Pieces", "model": [m["b"] * S for m in p["sol"]], "code": ends})
            elif dense and sol is not None and ends and not approx and "look" in p and p["look"]["scalar"]:
                # which piece answers a query at every half tick of the covered range: the model's lookup table against the real
                # container (the answering piece is observed through recording proxies), scalar and array path
                pieces = list(sol.y_interpolants)
                served = []
                sol.y_interpolants = [_Served(k, pc, served) for k, pc in enumerate(pieces)]
                try:
                    lk = p["look"]
                    qs = [(lk["lo2"] + k) * S / 2.0 for k in range(len(lk["scalar"]))]
                    got_s = []
                    for q in qs:
                        del served[:]
                        sol(q)
                        got_s.append(served[-1] + 1 if served else 0)
                    del served[:]
                    sol(np.array(qs))
                    got_v = [k + 1 for k in served]
                finally:
                    sol.y_interpolants = pieces
                if got_s != list(lk["scalar"]) or got_v != list(lk["array"]):
                    mism.append({"call": ncall, "what": "Lookup", "queries": qs, "model_scalar": list(lk["scalar"]), "code_scalar": got_s,
                                 "model_array": list(lk["array"]), "code_array": got_v, "piece_ends": ends})
                st["lookups"] = st.get("lookups", 0) + 2 * len(qs)
            d = float(sys_.dt)
            if not (abs(abs(d) - abs(p["dt"]) * S) <= 1e-9 and (d > 0) == (p["dt"] > 0)):
                mism.append({"call": ncall, "what": "Dt", "model": p["dt"] * S, "code": d})
            i += 1
        else:
            i += 1
    return {"skipped": None, "mismatches": mism, "calls": ncall}


def _job(item):
    log, method = item
    try:
        return replay(log, method)
    except Exception as e:     # noqa  -- a crash of the driver is a machinery problem, reported as such
        import traceback
        return {"skipped": None, "mismatches": [{"call": -1, "what": "DriverError", "code": traceback.format_exc()[-600:]}], "calls": 0}


def run(cfgs, num, seed, methods):
    logs, tlc_states = [], 0
    for cfg in cfgs:
        b, r = behaviours(cfg, num, seed)
        logs += [(lg, "adaptive" in cfg) for lg in b]
        m = re.search(r"The number of states generated: (\d+)", r.out)
        tlc_states += int(m.group(1)) if m else 0
    items = [(lg, "scripted" if ad else methods[k % len(methods)]) for k, (lg, ad) in enumerate(logs)]
    res = core.pool_map(_job, items, chunksize=8)
    return [lg for lg, _ in logs], items, res, tlc_states


METHODS = ["RK4", "Euler", "Midpoint", "Heun's", "ABAS5O6H", "RK5", "Ralston's", "BABS9O7H", "Symplectic Forward Euler"]
# explicit and splitting fixed-step methods: the step they return is the step they are asked for.  (A fixed-step implicit method may
# shorten a step when its stage solver reports failure, which the model cannot predict: e.g. CrankNicolson's first step after a
# reversal of direction is retried at 0.8 dt because the solver stops at 31 iterations with a residual of 5.6e-14.)


def short(lg):
    out = []
    for e in lg:
        if e["k"] == "init":
            out.append("t0=%s tf=%s dt0=%s" % (e["t0"], e["tf"], e["dt0"]))
        elif e["k"] == "call":
            out.append("integrate(%s%s%s)" % (e["target"], ",ev" if e["ev"] else "", ",cb" if e["cb"] else ""))
        elif e["k"] == "cb":
            out.append("cb:dt=%s" % e["set"])
        elif e["k"] == "fault":
            out.append("FAULT@%s/rows%s/depth%s" % (e["pc"], e["nrows"], e["depth"]))
        elif e["k"] == "reset":
            out.append("reset()")
    return " ".join(out)


def phase(run, cfgs, prefix, kinds, keep=None, replay=None, num=None):
    """Run the spec -> code replay as a phase of a property check: behaviours of OdeSystemSim under `cfgs`, filtered by `keep(log)`,
    replayed on the real code; mismatches of the given `kinds` are violations `<prefix>.ModelReplay.<kind>`."""
    if replay is not None:
        items = [(replay["log"], replay["method"])]
        res = [_job(items[0])]
        n_states = 0
    else:
        num = num or (420 if run.tier == "quick" else 2000)      # (a third of the walks now head for an indefinite target and never finish)
        logs = []
        n_states = 0
        for cfg in cfgs:
            # the adaptive model branches on what the integrator returns at every step: more behaviours are needed to meet the rare
            # combinations (a clamped last step that the integrator itself shortens)
            b, r = behaviours(cfg, num * (5 if "adaptive" in cfg else 1), run.seed)
            m = re.search(r"The number of states generated: (\d+)", r.out)
            n_states += int(m.group(1)) if m else 0
            run.mc_runs.append({"module": "OdeSystemSim", "cfg": cfg, "simulate": "num=%d" % num, "generated": int(m.group(1)) if m else 0,
                                "behaviours": len(b), "wall_s": round(r.wall, 2)})
            logs += [(lg, "adaptive" in cfg) for lg in b if keep is None or keep(lg)]
        # behaviours of the ADAPTIVE model are played through a scripted integrator that returns what TLC chose
        items = [(lg, "scripted" if ad else METHODS[k % len(METHODS)]) for k, (lg, ad) in enumerate(logs)]
        res = core.pool_map(_job, items, chunksize=8)
    nviol = 0
    for (lg, m), r in zip(items, res):
        run.evaluations += 1
        run.traces += 1
        if r["calls"] >= 2:
            run.nontrivial.add(("modelreplay", short(lg), m))
        seen = set()
        for mm in r["mismatches"]:
            if mm["what"] == "DriverError":
                raise core.MachineryError("model replay driver failed: %s" % mm["code"])
            if mm["what"] in kinds and mm["what"] not in seen:
                seen.add(mm["what"])
                nviol += 1
                run.violation("%s.ModelReplay.%s" % (prefix, mm["what"]), "%s %s" % (m, short(lg)), mm, replay={"modelreplay": {"log": lg, "method": m}})
    run.notes["model_replay"] = {"behaviours": len(items), "api_calls": sum(r["calls"] for r in res), "simulated_states": n_states,
                                 "with_events": sum(1 for lg, _ in items if any(e["k"] == "ret" and e["p"]["events"] for e in lg)),
                                 "with_fault": sum(1 for lg, _ in items if any(e["k"] == "fault" for e in lg)),
                                 "with_callback_assignment": sum(1 for lg, _ in items if any(e["k"] == "cb" and e["set"] for e in lg)),
                                 "with_shortened_step": sum(1 for lg, _ in items if any(e["k"] == "step" and e["dT"] != e["h"] for e in lg)),
                                 "with_shortened_last_step": sum(1 for lg, _ in items if any(e["k"] == "step" and e["dT"] != e["h"] and e.get("final") for e in lg))}
    return nviol


def has_events(lg):
    return any(e["k"] == "call" and e["ev"] for e in lg)


def has_fault(lg):
    return any(e["k"] == "fault" for e in lg)
