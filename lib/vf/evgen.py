"""Scenario lattice for the event properties C07 / C08 (shared)."""
from vf import gen, scen


def event_scenarios(tier, seed, prefix):
    thorough = tier == "thorough"
    meths = ["RK4", "RK5", "ABAS5O6H", "RK45CK", "DOPRI45", "RK87", "BackwardEuler", "CrankNicolson", "RadauIIA5", {"rich": "RK4", "levels": 3}]
    if thorough:
        meths += ["Euler", "Midpoint", "BABS9O7H", "Symplectic Forward Euler", "AHE", "RK108", "GaussLegendre4", "LobattoIIIC4", "LobattoIIIA4",
                  {"rich": "Midpoint", "levels": 2}]
    scales = [1e-6, 1e-3, 1.0, 10.0, 1e3, 1e6] if not thorough else [1e-6, 1e-5, 1e-4, 1e-3, 1e-2, 0.1, 1.0, 10.0, 1e2, 1e3, 1e4, 1e5, 1e6]
    spans = [(0.0, 2.0), (2.0, 0.0), (-5.0, -3.0), (6.0, 4.0), (20.0, 23.0)]
    scs = []
    n = 0
    for m in meths:
        for (a, b) in spans:
            span = b - a
            P = lambda f: a + span * f      # noqa
            dt0 = abs(span) / 8.0
            mixes = []
            # 1: one time event per scale, interior root
            mixes.append([{"kind": "time", "c": P(0.37), "s": s} for s in scales[:6]])
            # 2: roots exactly on step boundaries of the fixed-step grid, mixed with interior ones, directions
            mixes.append([{"kind": "time", "c": P(0.25), "s": 1.0}, {"kind": "time", "c": P(0.3), "s": -1.0, "dir": 1},
                          {"kind": "time", "c": P(0.5), "s": 100.0, "dir": -1}, {"kind": "time", "c": P(0.5), "s": -0.01},
                          {"kind": "time", "c": P(0.75), "s": 1e4, "dir": 1}, {"kind": "time", "c": P(0.8), "s": 1.0}])
            # 3: state events at several scales and directions (oscillator: y0 = cos, crosses 0.3 / -0.2)
            mixes.append([{"kind": "state", "c": 0.3, "comp": 0, "s": scales[(n + k) % len(scales)], "dir": d} for k, d in enumerate((0, 1, -1))]
                         + [{"kind": "state", "c": -0.2, "comp": 1, "s": scales[(n + 3) % len(scales)]}])
            # 4: derivative event and a single steep event
            mixes.append([{"kind": "dstate", "c": 0.1, "comp": 0, "s": scales[(n + 1) % len(scales)]}])
            mixes.append([{"kind": "state", "c": 0.3, "comp": 0, "s": scales[(n + 2) % len(scales)]}])
            # 5: coincident crossings of different functions (same level, different scales)
            mixes.append([{"kind": "state", "c": 0.3, "comp": 0, "s": 1.0}, {"kind": "state", "c": 0.3, "comp": 0, "s": 1e3},
                          {"kind": "time", "c": P(0.6), "s": 1.0}, {"kind": "time", "c": P(0.6), "s": -1e-3}])
            # 6: non-terminal event before a terminal one inside the same step (backward ordering matters)
            mixes.append([{"kind": "time", "c": P(0.51), "s": 1.0}, {"kind": "time", "c": P(0.53), "s": 1.0, "term": True}])
            # 7: crossing in the last ulp before a step boundary, steep
            mixes.append([{"kind": "time", "c": float.fromhex((P(0.5) * (1 - 2.0 ** -52)).hex()) if P(0.5) != 0 else -2.0 ** -60, "s": 1e3},
                          {"kind": "time", "c": P(0.625), "s": 1e6}])
            # 8: crossing whose root is not representable, in the last ulp before / after a node of the fixed-step grid, steep
            node = P(0.5)
            tiny = 1e-17 * max(1.0, abs(node))
            mixes.append([{"kind": "timeoff", "c": node, "off": tiny, "s": 1e3}, {"kind": "timeoff", "c": P(0.25), "off": -tiny, "s": 1e4},
                          {"kind": "timeoff", "c": P(0.75), "off": tiny, "s": -1e6}])
            # 9: very small scales with a requested direction
            mixes.append([{"kind": "state", "c": 0.3, "comp": 0, "s": 1e-13, "dir": 1}, {"kind": "state", "c": 0.3, "comp": 0, "s": 1e-13, "dir": -1},
                          {"kind": "state", "c": -0.2, "comp": 1, "s": 1e-18, "dir": 1}, {"kind": "state", "c": -0.2, "comp": 1, "s": 1e-9, "dir": -1},
                          {"kind": "time", "c": P(0.4), "s": 1e-13, "dir": -1}, {"kind": "time", "c": P(0.6), "s": -1e-15, "dir": -1}])
            # 10: two functions fire in one step of the fixed-step grid, the one listed FIRST crossing LATER, exactly on the step's end node (the
            #     next step meets that root again on its start node and must recognise it as reported - per function, not per list position)
            mixes.append([{"kind": "time", "c": P(0.5), "s": 1.0}, {"kind": "time", "c": P(0.45), "s": 1.0},
                          {"kind": "time", "c": P(0.75), "s": -1.0}, {"kind": "time", "c": P(0.7), "s": 10.0}])
            for k, mix in enumerate(mixes):
                n += 1
                if not thorough and (n + seed) % 3 == 0 and k != len(mixes) - 1:
                    continue
                sc = gen.with_tol(gen.base(m, a, b, dt0))
                sc["dense"] = bool(n % 2)
                sc["ops"] = [{"op": "integrate", "events": mix}]
                scs.append(sc)
    # repeated coincident crossings of different functions (same level, different scales) over several periods
    for m in ["RK4", "RK45CK", "RK87", "ABAS5O6H"] + (["DOPRI45", "RadauIIA5", "RK5"] if thorough else []):
        for (a, b) in ((0.0, 13.0), (13.0, 0.0), (-6.5, 6.5)):
            sc = gen.with_tol(gen.base(m, a, b, 0.25))
            sc["dense"] = bool(len(scs) % 2)
            sc["ops"] = [{"op": "integrate", "events": [{"kind": "state", "c": 0.3, "comp": 0, "s": 1.0}, {"kind": "state", "c": 0.3, "comp": 0, "s": 1e-3},
                                                        {"kind": "state", "c": 0.3, "comp": 0, "s": 50.0, "dir": 1}, {"kind": "state", "c": -0.5, "comp": 1, "s": 1.0}]}]
            scs.append(sc)
    # times that are large compared with the step (epoch-like offsets): near a root the spacing of the representable times exceeds
    # sqrt(eps) x step, so probes "a little to either side of the root" must not collapse onto the root (finding f35)
    big = [(2.0 ** 27, 2.0 ** 27 + 3.0, "float64"), (2.0 ** 27 + 3.0, 2.0 ** 27, "float64"), (-2.0 ** 30, -2.0 ** 30 + 3.0, "float64"),
           (3072.0, 3075.0, "float32"), (3075.0, 3072.0, "float32")]
    for m in ["RK4", "RK45CK", "RK87"] + (["DOPRI45", "RK5", "ABAS5O6H", "CrankNicolson"] if thorough else []):
        for (a, b, dty) in big:
            if dty == "float32" and m not in ("RK4", "RK5", "ABAS5O6H"):
                continue
            sg = 1.0 if b > a else -1.0
            sc = gen.with_tol(gen.base(m, a, b, 0.125))
            sc["dtype"] = dty
            sc["dense"] = bool(len(scs) % 2)
            sc["ops"] = [{"op": "integrate", "events": [{"kind": "state", "c": 0.3, "comp": 0, "s": 1.0}, {"kind": "state", "c": 0.3, "comp": 0, "s": 1e3, "dir": -1},
                                                        {"kind": "state", "c": -0.2, "comp": 1, "s": 1e-3, "dir": 1},
                                                        {"kind": "time", "c": a + sg * 1.03125, "s": 1.0}]}]
            scs.append(sc)
    # rational-solution problem: state event with a known true root along the exact trajectory
    for m in ["RK45CK", "DOPRI45", "RK87", "RadauIIA5"] + (["RK4", "RK108", "LobattoIIIC4"] if thorough else []):
        for c in (0.8, 0.5, 0.4):
            sc = gen.base(m, 0.0, 2.0, 0.125, problem="rat", y0=[1.0], rtol=1e-8, atol=1e-8, dense=True)
            sc["ops"] = [{"op": "integrate", "events": [{"kind": "state", "c": c, "comp": 0, "s": s} for s in (1.0, 1e4, 1e-4)]}]
            scs.append(sc)
    return gen.number(scs, prefix)
