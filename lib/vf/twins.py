"""Twin executions: build TwinJudge cases from two runs the design says are equivalent."""
from fractions import Fraction
import math
import numpy as np
from vf import num, scen


def state_units(ya, yb, dtype):
    eps = num.eps_of(dtype)
    worst = 0
    ya, yb = np.asarray(ya).reshape(-1), np.asarray(yb).reshape(-1)
    if ya.shape != yb.shape:
        return num.CAP
    for a, b in zip(ya, yb):
        if not (np.isfinite(a) and np.isfinite(b)):
            return num.CAP
        fa, fb = num.frac(a), num.frac(b)
        u = abs(fa - fb) / (eps * max(Fraction(1), abs(fa)))
        worst = max(worst, int(min(num.CAP, math.ceil(u))))
    return worst


def tol_units(ya, yb, rtol, atol):
    worst = 0
    ya, yb = np.asarray(ya).reshape(-1), np.asarray(yb).reshape(-1)
    if ya.shape != yb.shape:
        return num.CAP
    for a, b in zip(ya, yb):
        if not (np.isfinite(a) and np.isfinite(b)):
            return num.CAP
        fa, fb = num.frac(a), num.frac(b)
        den = Fraction(atol) + Fraction(rtol) * abs(fa)
        u = abs(fa - fb) / den
        worst = max(worst, int(min(num.CAP, math.ceil(u))))
    return worst


def intern_seqs(seq_a, seq_b):
    """Jointly intern two sequences of hashable exact values (Fractions / bytes) into ints."""
    table = {}

    def idx(v):
        if v not in table:
            table[v] = len(table) + 1
        return table[v]
    return [idx(v) for v in seq_a], [idx(v) for v in seq_b]


def steps_of(t, negate=False):
    d = [num.frac(t[i + 1]) - num.frac(t[i]) for i in range(len(t) - 1)]
    return [(-x if negate else x) for x in d]


def rows_of(res, shift=None):
    out = []
    for tt, yy in zip(res["t"], res["y"]):
        out.append(num.frac(tt))
        out.append(num.canon_bytes(yy))
    for mm in res.get("mids", []):
        out.append(num.canon_bytes(mm))
    for (te, ye) in res.get("events", []):
        out.append(num.frac(te))
        out.append(num.canon_bytes(ye))
    return out


def case(cid, clause, mode, ra, rb, dtype="float64", rtol=None, atol=None, seq="steps", negate_b=False):
    dt = np.dtype(dtype)
    if seq == "steps":
        sa, sb = steps_of(ra["t"]), steps_of(rb["t"], negate=negate_b)
    elif seq == "rows-events":       # recorded rows and events only (no dense samples: one of the twins may keep no dense output)
        sa, sb = rows_of(dict(ra, mids=[])), rows_of(dict(rb, mids=[]))
    else:
        sa, sb = rows_of(ra), rows_of(rb)
    ia, ib = intern_seqs(sa, sb)
    ok = ra["ok"] and rb["ok"] and len(ra["y"]) > 0 and len(rb["y"]) > 0
    dense_units = -1
    pa, pb = ra.get("probes") or [], rb.get("probes") or []
    if ok and rtol is not None and pa and len(pa) == len(pb) and num.frac(ra["t"][0]) == num.frac(rb["t"][0]) \
            and num.gap_units(ra["t"][-1], rb["t"][-1], [ra["t"][-1]], dt) <= 64:
        dense_units = max(tol_units(u, w, rtol, atol) for u, w in zip(pa, pb))
    return {"id": cid, "denseTolUnits": dense_units, "clause": clause, "mode": mode, "seqA": ia, "seqB": ib, "okA": bool(ra["ok"]), "okB": bool(rb["ok"]),
            "units": state_units(ra["y"][-1], rb["y"][-1], dt) if ok else 0,
            "tolUnits": tol_units(ra["y"][-1], rb["y"][-1], rtol, atol) if ok and rtol is not None else 0}
