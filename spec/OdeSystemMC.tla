----------------------------- MODULE OdeSystemMC -----------------------------
EXTENDS OdeSystem
MCT0S == {-4, 0, 4}
MCTFS == {-4, 0, 4, 8}
MCDTS == {2, 4, 12}
MCTARGETS == {-4, -2, 0, 2, 4}
NoRoots == {}
Roots1 == {[t |-> 2, ev |-> 1, term |-> FALSE], [t |-> 3, ev |-> 2, term |-> TRUE], [t |-> 4, ev |-> 1, term |-> FALSE],
           [t |-> 4, ev |-> 3, term |-> FALSE], [t |-> -2, ev |-> 2, term |-> TRUE]}
(* constants of the replay behaviours (OdeSystemSim): steps of 1-2 ticks, roots of one event function further apart than a step *)
SimT0S == {-4, 0, 4}
SimTFS == {-4, 0, 4, 8}
SimDTS == {1, 2}
SimTARGETS == {-4, -3, 0, 2, 5, 6, 999, -999}      \* 999 / -999: indefinite integration (OdeSystem!Infinity), replayed as t = +-inf
SimRoots == {[t |-> 1, ev |-> 1, term |-> FALSE], [t |-> 5, ev |-> 1, term |-> FALSE], [t |-> -3, ev |-> 1, term |-> FALSE],
             [t |-> 3, ev |-> 2, term |-> TRUE], [t |-> -2, ev |-> 2, term |-> TRUE],
             [t |-> 3, ev |-> 3, term |-> FALSE], [t |-> 7, ev |-> 3, term |-> FALSE]}
(* the adaptive replay: steps of 2 and 4 ticks so that a clamped last step can itself be halved by the integrator; one root per event function *)
SimDTSAd == {2, 4}
SimRootsAd == {[t |-> 1, ev |-> 1, term |-> FALSE], [t |-> 3, ev |-> 2, term |-> TRUE], [t |-> 3, ev |-> 3, term |-> FALSE]}
(* a terminal root strictly inside a CLAMPED LAST step, at an even distance from its start (the landing call halves its step on the  *)
(* tick grid): from 0 in steps of 8 to the target 12 - last step [8, 12], terminal root at 10 - and the mirror image from 24            *)
LandT0S == {0, 24}
LandTFS == {16}
LandDTS == {8}
LandTARGETS == {12, 20, 4}
LandRoots == {[t |-> 10, ev |-> 1, term |-> TRUE], [t |-> 14, ev |-> 1, term |-> TRUE], [t |-> 4, ev |-> 2, term |-> FALSE]}
IndefTARGETS == {999, -999, 4, 0}
NoCb == {}
Cb1 == {1, 2}
NoDev == {}
DevAbsFinalClamp == {"absFinalClamp"}
DevDirFromSystemSpan == {"dirFromSystemSpan"}
DevKeepRolledBackPiece == {"keepRolledBackPiece"}
DevFrontInsert == {"frontInsert"}
DevDedupByPosition == {"dedupByPosition"}
DevResetKeepsEvents == {"resetKeepsEvents"}
DevClampAdoptsDt == {"clampAdoptsDt"}
DevRecordStepTooShort == {"recordStepTooShort"}
DevPerCallSuppression == {"perCallSuppression"}
DevBisectAfterTurn == {"bisectAfterTurn"}
DevLandingStepCarriedOver == {"landingStepCarriedOver"}
DevCode == {"perCallSuppression"}      \* the deviations the real code has (observations, DESIGN.md section 8)
=============================================================================
