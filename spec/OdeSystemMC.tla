----------------------------- MODULE OdeSystemMC -----------------------------
EXTENDS OdeSystem
MCT0S == {-4, 0, 4}
MCTFS == {-4, 0, 4, 8}
MCDTS == {2, 4, 12}
MCTARGETS == {-4, -2, 0, 2, 4}
NoRoots == {}
Roots1 == {[t |-> 2, ev |-> 1, term |-> FALSE], [t |-> 3, ev |-> 2, term |-> TRUE], [t |-> 4, ev |-> 1, term |-> FALSE],
           [t |-> 4, ev |-> 3, term |-> FALSE], [t |-> -2, ev |-> 2, term |-> TRUE]}
NoCb == {}
Cb1 == {1, 2}
NoDev == {}
DevAbsFinalClamp == {"absFinalClamp"}
DevDirFromSystemSpan == {"dirFromSystemSpan"}
DevKeepRolledBackPiece == {"keepRolledBackPiece"}
DevFrontInsert == {"frontInsert"}
DevDedupByPosition == {"dedupByPosition"}
DevResetKeepsEvents == {"resetKeepsEvents"}
DevClampAdoptsDt == {"clampAdoptsDt"}
DevRecordStepTooShort == {"recordStepTooShort"}
=============================================================================
