---------------------------- MODULE RichardsonJudge ---------------------------
(* Judge for the level protocol of the Richardson wrappers (spec/RichardsonStep.tla).  One case  *)
(* per real wrapper call; the sensor wraps the call of every basis integrator and reports, for the *)
(* wrapper's last attempt: gap[m] = distance between the sum of the steps level m-1 took and the     *)
(* step the wrapper reported, in units of eps x pieces; longer = the reported step exceeds the        *)
(* requested one; sameSign.                                                                           *)
EXTENDS Integers, Sequences, FiniteSets, TLC, Json, IOUtils, Bounds
In == JsonDeserialize(IOEnv.VF_IN)
Cases == In.cases
VARIABLES i, bad
vars == <<i, bad>>
V(o, cl, k) == [id |-> o.id, clause |-> cl, k |-> k]
CheckCase(o) ==
    IF o.raised THEN {} ELSE          \* the wrapper gave up (FailedToMeetTolerances): no step was accepted
    IF ~o.ran THEN {V(o, "C05.RichardsonCallRuns", 0)} ELSE
    {V(o, "C05.RichardsonLevelsIntegrateTheStepReported", m) : m \in {m \in 1..Len(o.gap) : o.gap[m] > UlpFew}}
    \cup (IF o.longer \/ ~o.sameSign THEN {V(o, "C05.RichardsonReportedStepNotLongerThanRequested", 0)} ELSE {})
    \cup (IF Len(o.gap) = o.levels THEN {} ELSE {V(o, "C05.RichardsonEveryLevelRuns", 0)})
Init == i = 1 /\ bad = {}
Next == /\ i <= Len(Cases)
        /\ bad' = bad \cup CheckCase(Cases[i])
        /\ i' = i + 1
Spec == Init /\ [][Next]_vars
Emit == (i = Len(Cases) + 1) => JsonSerialize(IOEnv.VF_OUT, [n |-> Len(Cases), bad |-> bad])
=============================================================================
