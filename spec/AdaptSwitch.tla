------------------------------ MODULE AdaptSwitch -----------------------------
(* The adaptivity switch of an integrator object (C04 / C05).  A method HAS an embedded          *)
(* estimator or not (a class constant); `integrator.is_adaptive = b` switches step adaptation on   *)
(* or off; reading `integrator.is_adaptive` gives the EFFECTIVE adaptivity: estimator present and    *)
(* adaptation on.  An explicit method that is not effectively adaptive takes exactly the step it is   *)
(* given (C04); the Richardson wrappers rely on that for their basis integrators.                    *)
(* Deviation "flagReadInverted" is the library before repair 40.                                      *)
(* With $VF_OUT and no $VF_IN the module writes every history of assignments up to MAXLEN with the     *)
(* expected read-back after each one (generator); with $VF_IN it judges the observations.               *)
EXTENDS Integers, Sequences, FiniteSets, TLC, Json, IOUtils, SequencesExt
CONSTANTS MAXLEN, Dev
Effective(hasEstimator, on) == IF "flagReadInverted" \in Dev THEN hasEstimator /\ ~on ELSE hasEstimator /\ on
RECURSIVE Hists(_)
Hists(n) == IF n = 0 THEN {<< >>} ELSE LET P == Hists(n - 1) IN P \cup {Append(h, b) : h \in {x \in P : Len(x) = n - 1}, b \in BOOLEAN}
(* the switch after a history of assignments: on by default *)
SwitchAfter(h) == IF Len(h) = 0 THEN TRUE ELSE h[Len(h)]
Expect(h, est) == [k \in 0..Len(h) |-> Effective(est, SwitchAfter(SubSeq(h, 1, k)))]
(* design properties, evaluated by TLC over all histories *)
SwitchingOffSwitchesOff == \A h \in Hists(MAXLEN) : \A est \in BOOLEAN : (Len(h) > 0 /\ ~h[Len(h)]) => ~Effective(est, SwitchAfter(h))
NoEstimatorNeverAdaptive == \A h \in Hists(MAXLEN) : ~Effective(FALSE, SwitchAfter(h))
DefaultIsTheEstimator == \A est \in BOOLEAN : Effective(est, SwitchAfter(<< >>)) = est
HasIn == "VF_IN" \in DOMAIN IOEnv
In == IF HasIn THEN JsonDeserialize(IOEnv.VF_IN) ELSE [cases |-> << >>]
Cases == In.cases
VARIABLES i, bad
vars == <<i, bad>>
(* a case: [id, hasEstimator, explicit, hist (assignments), read (read-backs: initial, then after each assignment), tookRequested] *)
CheckCase(o) ==
    LET want == Expect(o.hist, o.hasEstimator) IN
    {[id |-> o.id, clause |-> "C04.IsAdaptiveReadsTheSwitch", k |-> k] : k \in {k \in 0..Len(o.hist) : o.read[k + 1] # want[k]}}
    \cup (IF o.explicit /\ ~want[Len(o.hist)] /\ ~o.tookRequested THEN {[id |-> o.id, clause |-> "C04.NonAdaptiveExplicitTakesTheStepItIsGiven", k |-> 0]} ELSE {})
    \cup (IF o.mustShorten /\ want[Len(o.hist)] /\ o.tookRequested THEN {[id |-> o.id, clause |-> "C05.AdaptiveMethodRejectsAStepFarTooLong", k |-> 0]} ELSE {})
Init == i = 1 /\ bad = {}
Next == /\ i <= Len(Cases)
        /\ bad' = bad \cup CheckCase(Cases[i])
        /\ i' = i + 1
Spec == Init /\ [][Next]_vars
Emit == (i = Len(Cases) + 1) =>
            IF HasIn THEN JsonSerialize(IOEnv.VF_OUT, [n |-> Len(Cases), bad |-> bad])
            ELSE JsonSerialize(IOEnv.VF_OUT, [histories |-> SetToSeq(Hists(MAXLEN))])
=============================================================================
