----------------------------- MODULE RootedTrees -----------------------------
(* Rooted trees, the index set of the Runge-Kutta order conditions (C01).         *)
(* A tree is a non-increasing sequence of indices of EARLIER trees (its children)  *)
(* in a table built order by order; tree 1 is the single vertex.  This is          *)
(* canonical by construction and is directly the index structure of the "tree      *)
(* system"  y_tau' = PROD_{sigma child of tau} y_sigma,  y(0) = 0, whose exact      *)
(* solution is y_tau(t) = t^|tau| / gamma(tau) and on which one step of size h of   *)
(* any Runge-Kutta method returns h^|tau| * SUM_i b_i Phi_i(tau) in component tau:  *)
(* the order condition for tau holds iff that component equals h^|tau|/gamma(tau).  *)
(*                                                                                  *)
(* The table is built by a state machine (one order per step) so that TLC checks    *)
(* the invariants below on every prefix; with $VF_OUT set the final table is         *)
(* written as JSON for the actuator.                                                 *)
EXTENDS Integers, Sequences, FiniteSets, TLC, Json, IOUtils, SequencesExt
CONSTANT P          \* highest order generated

RECURSIVE Parts(_, _, _)
(* non-increasing index sequences over tab[1..m] whose orders sum to r *)
Parts(tab, r, m) ==
    IF r = 0 THEN {<< >>}
    ELSE UNION {{<<k>> \o s : s \in Parts(tab, r - tab[k].ord, k)} : k \in {k \in 1..m : tab[k].ord <= r}}

RECURSIVE ProdGamma(_, _)
ProdGamma(tab, kids) == IF kids = << >> THEN 1 ELSE tab[Head(kids)].gamma * ProdGamma(tab, Tail(kids))

NewTrees(tab, n) == {[kids |-> s, ord |-> n, gamma |-> n * ProdGamma(tab, s)] : s \in Parts(tab, n - 1, Len(tab))}

VARIABLES tab, n
vars == <<tab, n>>
Init == tab = <<[kids |-> << >>, ord |-> 1, gamma |-> 1]>> /\ n = 1
Grow == /\ n < P
        /\ tab' = tab \o SetToSeq(NewTrees(tab, n + 1))
        /\ n' = n + 1
Spec == Init /\ [][Grow]_vars

CountOfOrder(k) == Cardinality({i \in 1..Len(tab) : tab[i].ord = k})
(* OEIS A000081 *)
Known == <<1, 1, 2, 4, 9, 20, 48, 115, 286, 719, 1842, 4766>>
TreeCounts == \A k \in 1..n : k <= Len(Known) => CountOfOrder(k) = Known[k]
ChildrenAreEarlier == \A i \in 1..Len(tab) : \A j \in 1..Len(tab[i].kids) : tab[i].kids[j] < i
Canonical == \A i \in 1..Len(tab) : \A j \in 1..(Len(tab[i].kids) - 1) : tab[i].kids[j] >= tab[i].kids[j + 1]
NoDuplicates == \A i, j \in 1..Len(tab) : tab[i].kids = tab[j].kids => i = j
RECURSIVE SumOrd(_, _)
SumOrd(t, kids) == IF kids = << >> THEN 0 ELSE t[Head(kids)].ord + SumOrd(t, Tail(kids))
OrderIsVertexCount == \A i \in 1..Len(tab) : tab[i].ord = 1 + SumOrd(tab, tab[i].kids)
(* the tall tree of order k has gamma = k!, the bushy tree has gamma = k *)
RECURSIVE Fact(_)
Fact(k) == IF k <= 1 THEN 1 ELSE k * Fact(k - 1)
GammaExtremes ==
    \A k \in 2..n :
        /\ \E i \in 1..Len(tab) : tab[i].ord = k /\ Len(tab[i].kids) = k - 1 /\ tab[i].gamma = k
        /\ \E i \in 1..Len(tab) : tab[i].ord = k /\ Len(tab[i].kids) = 1 /\ tab[i].gamma = Fact(k)
Emit == (n = P /\ "VF_OUT" \in DOMAIN IOEnv) =>
            JsonSerialize(IOEnv.VF_OUT, [P |-> P, trees |-> [i \in 1..Len(tab) |-> [kids |-> tab[i].kids, ord |-> tab[i].ord, gamma |-> tab[i].gamma]]])
=============================================================================
