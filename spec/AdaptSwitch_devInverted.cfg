CONSTANTS MAXLEN = 3
  Dev = {"flagReadInverted"}
SPECIFICATION Spec
INVARIANT Emit
INVARIANT SwitchingOffSwitchesOff
INVARIANT NoEstimatorNeverAdaptive
INVARIANT DefaultIsTheEstimator
CHECK_DEADLOCK FALSE
