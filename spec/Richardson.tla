------------------------------ MODULE Richardson -----------------------------
(* Algebra of the Aitken-Neville tableau used by the Richardson-extrapolated      *)
(* wrappers (C01).  The result of a base method of order p over an interval H,     *)
(* computed with 2^m equal sub-steps, has the error expansion                      *)
(*      T[m][0] - exact = SUM_{j >= p} c_j (H / 2^m)^j.                            *)
(* The tableau is linear, so entry T[m][n] has an expansion with coefficient       *)
(* E[m][n][j] * c_j H^j, and its order is the least j with E[m][n][j] # 0.         *)
(* TLC computes E exactly modulo two primes (a rational that vanishes vanishes      *)
(* modulo both; the invariant OrderFormula would expose an accidental zero).        *)
(* The wrapper with L levels returns T[L-2][L-2] (the finest row only feeds the     *)
(* error estimate).  Deviations: "divisorIgnoresBaseOrder" (divide by 2^n - 1),     *)
(* "divisorUsesRow" (2^(p+m-1) - 1).                                               *)
EXTENDS Integers, Sequences, FiniteSets, TLC
CONSTANTS PMAX, LMAX, JSPAN, Dev

Primes == <<10007, 10009>>
RECURSIVE PowMod(_, _, _)
PowMod(b, e, q) == IF e = 0 THEN 1
                   ELSE LET h == PowMod(b, e \div 2, q) IN
                        IF e % 2 = 0 THEN (h * h) % q ELSE (((h * h) % q) * (b % q)) % q
Inv(a, q) == PowMod(a % q, q - 2, q)          \* Fermat
Mod(a, q) == ((a % q) + q) % q

Divisor(p, m, k, q) ==
    IF "divisorIgnoresBaseOrder" \in Dev THEN Mod(PowMod(2, k, q) - 1, q)
    ELSE IF "divisorUsesRow" \in Dev THEN Mod(PowMod(2, p + m - 1, q) - 1, q)
    ELSE Mod(PowMod(2, p + k - 1, q) - 1, q)

RECURSIVE E(_, _, _, _, _)
E(p, m, k, j, q) ==
    IF k = 0 THEN Inv(PowMod(2, m * j, q), q)
    ELSE LET a == E(p, m, k - 1, j, q)  b == E(p, m - 1, k - 1, j, q)
         IN  Mod(a + Mod(a - b, q) * Inv(Divisor(p, m, k, q), q), q)

Vanishes(p, m, k, j) == \A i \in 1..Len(Primes) : E(p, m, k, j, Primes[i]) = 0
OrderOf(p, m, k) == LET S == {j \in p..(p + JSPAN) : ~Vanishes(p, m, k, j)} IN CHOOSE j \in S : \A i \in S : j <= i

VARIABLES p, L
vars == <<p, L>>
Init == p \in 1..PMAX /\ L \in 2..LMAX
Next == FALSE /\ UNCHANGED vars
Spec == Init /\ [][Next]_vars

Returned == OrderOf(p, L - 2, L - 2)
NeverLowerThanBase == Returned >= p
StrictlyHigherWithThreeLevels == L >= 3 => Returned > p
OrderFormula == Returned = p + L - 2
=============================================================================
