CONSTANT MAXLEN = 5
SPECIFICATION Spec
INVARIANT UserJacobianWins
INVARIANT CounterCountsRequests
INVARIANT FdOnlyWithoutUserJacobian
CHECK_DEADLOCK FALSE
