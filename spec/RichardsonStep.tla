---------------------------- MODULE RichardsonStep ----------------------------
(* One call of a Richardson-extrapolated integrator (C05, C01): level 0 takes the requested   *)
(* step h with the basis integrator, which - being an embedded pair or an implicit method - may *)
(* hand back a SHORTER step d0; the wrapper adopts the step actually taken; every further level   *)
(* m integrates the adopted step in 2^m pieces; the tableau extrapolates the level increments and   *)
(* the adopted step is reported as taken.  The extrapolation is meaningful only if all levels        *)
(* integrated the same span, and the recorded time is right only if that span is the one reported.    *)
(* Steps are signed ticks.  Deviation "signedComparison" is the wrapper before repair 30: the          *)
(* shorter step is adopted only if d0 < h, which is never the case on a backward (negative) step.       *)
EXTENDS Integers, Sequences, FiniteSets, TLC
CONSTANTS LEVELS, Dev
Hs == {-8, -4, 4, 8}
Abs(x) == IF x < 0 THEN -x ELSE x
VARIABLES pc, h, adopted, span, reported
vars == <<pc, h, adopted, span, reported>>
Init == /\ pc = "level0" /\ h \in Hs /\ adopted = 0 /\ span = << >> /\ reported = 0
Level0 == /\ pc = "level0"
          /\ \E d0 \in {h, h \div 2, h \div 4} :          \* what the basis integrator took of the requested step
                /\ span' = <<d0>>
                /\ adopted' = IF "signedComparison" \in Dev THEN (IF d0 < h THEN d0 ELSE h)
                              ELSE (IF Abs(d0) < Abs(h) THEN d0 ELSE h)
          /\ pc' = "levels" /\ UNCHANGED <<h, reported>>
LevelM == /\ pc = "levels" /\ Len(span) < LEVELS
          /\ span' = Append(span, adopted)                \* 2^m pieces of adopted / 2^m
          /\ UNCHANGED <<pc, h, adopted, reported>>
Return == /\ pc = "levels" /\ Len(span) = LEVELS
          /\ reported' = adopted /\ pc' = "done" /\ UNCHANGED <<h, adopted, span>>
Next == Level0 \/ LevelM \/ Return
Spec == Init /\ [][Next]_vars
AllLevelsIntegrateTheStepReported == pc = "done" => \A m \in 1..Len(span) : span[m] = reported
ReportedStepNotLongerThanRequested == pc = "done" => (Abs(reported) <= Abs(h) /\ (reported > 0) = (h > 0))
=============================================================================
