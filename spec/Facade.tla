-------------------------------- MODULE Facade --------------------------------
(* solve_ivp as a composition of OdeSystem operations (C18).                          *)
(*   New(fun, y0, t_span, dense, dt = clip(first_step, min_step, max_step), tolerances, *)
(*       constants = args bound by position); SetMethod(method);                        *)
(*   without t_eval:  Integrate()            -> the whole recorded grid                   *)
(*   with t_eval:     for t in Sort(t_eval): Integrate(t); collect the last row            *)
(* The model abstracts integration to "reach the target" (C03 is checked elsewhere) and     *)
(* lets TLC check the facade's own logic on every short t_eval over a small tick range:      *)
(* unsorted and repeated entries, with or without the end points.                           *)
EXTENDS Integers, Sequences, FiniteSets, TLC
CONSTANTS T0, TF, MAXN
Ticks == T0..TF
RECURSIVE SortedOf(_)
Insert(x, s) == LET k == CHOOSE k \in 0..Len(s) : (\A i \in 1..k : s[i] <= x) /\ (\A i \in (k + 1)..Len(s) : s[i] > x)
                IN  SubSeq(s, 1, k) \o <<x>> \o SubSeq(s, k + 1, Len(s))
SortedOf(s) == IF s = << >> THEN << >> ELSE Insert(s[1], SortedOf(Tail(s)))

VARIABLES teval, cur, k, out, calls
vars == <<teval, cur, k, out, calls>>
Init == /\ teval \in UNION {[1..n -> Ticks] : n \in 1..MAXN}
        /\ cur = T0 /\ k = 1 /\ out = << >> /\ calls = << >>
(* one iteration of the facade's loop: integrate(t) (a no-op when already there) and collect the current row *)
Visit == /\ k <= Len(teval)
         /\ LET t == SortedOf(teval)[k] IN
              /\ calls' = Append(calls, [from |-> cur, to |-> t, noop |-> (t = cur)])
              /\ cur' = t
              /\ out' = Append(out, t)
         /\ k' = k + 1
         /\ UNCHANGED teval
Next == Visit
Spec == Init /\ [][Next]_vars
Done == k = Len(teval) + 1
ReturnsExactlyTheRequestedTimesSorted == Done => out = SortedOf(teval)
OneColumnPerRequestedTime == Done => Len(out) = Len(teval)
NeverIntegratesBackwards == \A i \in 1..Len(calls) : calls[i].to >= calls[i].from
RepeatedTimeIsANoOp == \A i \in 1..Len(calls) : calls[i].noop <=> (calls[i].to = calls[i].from)
SortIsAPermutation == \A x \in Ticks : Cardinality({i \in 1..Len(teval) : teval[i] = x}) = Cardinality({i \in 1..Len(SortedOf(teval)) : SortedOf(teval)[i] = x})
=============================================================================
