-------------------------------- MODULE Facade --------------------------------
(* solve_ivp as a composition of OdeSystem operations (C18).                          *)
(*   New(fun, y0, t_span, dense, dt = clip(first_step, min_step, max_step), tolerances, *)
(*       constants = args bound by position); SetMethod(method);                        *)
(*   without t_eval:  Integrate()            -> the whole recorded grid                   *)
(*   with t_eval:     for t in Sort(t_eval): Integrate(t); collect the last row            *)
(* The model abstracts integration to "reach the target" (C03 is checked elsewhere) and     *)
(* lets TLC check the facade's own logic on every short t_eval over a small tick range:      *)
(* unsorted and repeated entries, with or without the end points.                           *)
(* A TERMINAL EVENT (at tick ev, or none: ev = NoEvent) stops the run: integrate(t) from cur      *)
(* past ev ends at ev with status "event"; the facade then returns the requested times it had      *)
(* reached and goes no further.  Deviation "carriesOnPastTheEvent" is the facade before repair 37:  *)
(* it collected the event time as if it had been requested and went on calling integrate().        *)
EXTENDS Integers, Sequences, FiniteSets, TLC
CONSTANTS T0, TF, MAXN, Dev
NoEvent == T0 - 1
Ticks == T0..TF
RECURSIVE SortedOf(_)
Insert(x, s) == LET k == CHOOSE k \in 0..Len(s) : (\A i \in 1..k : s[i] <= x) /\ (\A i \in (k + 1)..Len(s) : s[i] > x)
                IN  SubSeq(s, 1, k) \o <<x>> \o SubSeq(s, k + 1, Len(s))
SortedOf(s) == IF s = << >> THEN << >> ELSE Insert(s[1], SortedOf(Tail(s)))

VARIABLES teval, ev, cur, k, out, calls, stopped, nev
vars == <<teval, ev, cur, k, out, calls, stopped, nev>>
Init == /\ teval \in UNION {[1..n -> Ticks] : n \in 1..MAXN}
        /\ ev \in (Ticks \ {T0}) \cup {NoEvent}
        /\ cur = T0 /\ k = 1 /\ out = << >> /\ calls = << >> /\ stopped = FALSE /\ nev = 0
(* integrate(t) from cur: stopped by the terminal event when it lies in (cur, t] (or at cur again, when a call is made from the event: *)
(* duplicate suppression is per call, the event fires at once)                                                                        *)
Hits(t) == ev # NoEvent /\ ((cur < ev /\ ev <= t) \/ (cur = ev /\ nev > 0 /\ t > cur))
(* one iteration of the facade's loop: integrate(t) (a no-op when already there) and collect the current row *)
Visit == /\ k <= Len(teval) /\ ~stopped
         /\ LET t == SortedOf(teval)[k] IN
              /\ calls' = Append(calls, [from |-> cur, to |-> t, noop |-> (t = cur)])
              /\ IF Hits(t)
                 THEN /\ cur' = ev /\ nev' = nev + 1
                      /\ IF "carriesOnPastTheEvent" \in Dev
                         THEN out' = Append(out, ev) /\ stopped' = FALSE
                         ELSE out' = out /\ stopped' = TRUE
                 ELSE cur' = t /\ out' = Append(out, t) /\ UNCHANGED <<stopped, nev>>
         /\ k' = k + 1
         /\ UNCHANGED <<teval, ev>>
Next == Visit
Spec == Init /\ [][Next]_vars
Done == stopped \/ k = Len(teval) + 1
Reached == SelectSeq(SortedOf(teval), LAMBDA t : ev = NoEvent \/ t < ev)      \* the requested times before the terminal event
ReturnsExactlyTheRequestedTimesSorted == Done => out = Reached
OneColumnPerRequestedTime == Done => Len(out) = Len(Reached)
NothingReturnedBeyondATerminalEvent == \A i \in 1..Len(out) : ev = NoEvent \/ out[i] < ev
TerminalEventReportedOnce == nev <= 1
NeverIntegratesBackwards == \A i \in 1..Len(calls) : calls[i].to >= calls[i].from
RepeatedTimeIsANoOp == \A i \in 1..Len(calls) : calls[i].noop <=> (calls[i].to = calls[i].from)
SortIsAPermutation == \A x \in Ticks : Cardinality({i \in 1..Len(teval) : teval[i] = x}) = Cardinality({i \in 1..Len(SortedOf(teval)) : SortedOf(teval)[i] = x})
=============================================================================
