CONSTANTS CMax = 2  TMax = 2  KMax = 12  KStep = 2
SPECIFICATION Spec
INVARIANT HermiteReproducesCubic
INVARIANT HermiteGradIsDerivative
INVARIANT EndValuesAndSlopes
CHECK_DEADLOCK FALSE
