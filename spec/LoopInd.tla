------------------------------- MODULE LoopInd --------------------------------
(* The step loop of OdeSystem.integrate over UNBOUNDED integers (ticks), for Apalache:  *)
(* an inductive invariant shows, for every start, target, step and every outcome an       *)
(* integrator may return (any part of the requested step, any proposal for the next one),   *)
(* that the current time never passes the target and every step strictly reduces the         *)
(* remaining distance - the C03 clauses NoOvershootOnCommit / Progress / SegmentMonotone      *)
(* without the small bounds of the TLC configurations.  (TLC checks the full model with        *)
(* events, faults and callbacks on small tick ranges; this module abstracts those away.)        *)
EXTENDS Integers
CONSTANT
    \* @type: Bool;
    Deviant          \* TRUE: the pinned tree's final-step test |t + dt| > |tf| (repair 1) - the induction must fail
CInitOk == Deviant = FALSE
CInitDev == Deviant = TRUE
VARIABLES
    \* @type: Int;
    cur,
    \* @type: Int;
    target,
    \* @type: Int;
    dt,
    \* @type: Int;
    start,
    \* @type: Int;
    prev
Abs(x) == IF x < 0 THEN -x ELSE x
Sgn(x) == IF x > 0 THEN 1 ELSE IF x < 0 THEN -1 ELSE 0
FixDir(d, tg, t) == IF Sgn(d) # Sgn(tg - t) THEN -d ELSE d
Init ==
    /\ start \in Int /\ target \in Int /\ dt \in Int
    /\ dt # 0 /\ cur = start /\ prev = start
(* one iteration: orient the step, clamp the last one, the integrator takes any non-empty part of it and proposes any non-zero step *)
Next ==
    /\ cur # target
    /\ LET d == FixDir(dt, target, cur)
           over == IF Deviant THEN Abs(cur + d) > Abs(target) ELSE Abs(d) > Abs(target - cur)
           h == IF over THEN target - cur ELSE d
       IN \E dT \in Int, nd \in Int :
            /\ dT # 0 /\ Sgn(dT) = Sgn(h) /\ Abs(dT) <= Abs(h)
            /\ nd # 0
            /\ cur' = cur + dT
            /\ prev' = cur
            /\ dt' = nd
    /\ UNCHANGED <<target, start>>
Between(a, x, b) == (a <= x /\ x <= b) \/ (b <= x /\ x <= a)
(* the inductive invariant *)
IndInv ==
    /\ dt # 0
    /\ Between(start, cur, target)            \* never beyond the target, never behind the start
    /\ Between(start, prev, cur)              \* rows are ordered along the direction of the call
    /\ (prev # cur => Abs(target - cur) < Abs(target - prev))     \* every step made progress
IndInit == start \in Int /\ target \in Int /\ dt \in Int /\ cur \in Int /\ prev \in Int /\ IndInv
=============================================================================
