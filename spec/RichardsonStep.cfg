CONSTANTS LEVELS = 4
  Dev = {}
SPECIFICATION Spec
INVARIANT AllLevelsIntegrateTheStepReported
INVARIANT ReportedStepNotLongerThanRequested
CHECK_DEADLOCK FALSE
