------------------------------ MODULE TimerModel ------------------------------
(* Growth beyond the listed properties: desolver.utilities.BlockTimer and convert_suffix.   *)
(*                                                                                          *)
(* BlockTimer is a small state machine over a clock.  The clock is the environment: every   *)
(* operation carries `now`, the tick the (scripted) clock shows while the operation runs.    *)
(* TApply(state, op) is the reference effect <<state', outcome>>.  Dev names the deliberate  *)
(* deviations of the CODE from the design (CodeDev is what the real class does; with         *)
(* Dev = {} the invariants of TimerApi.tla hold):                                            *)
(*   manualStartCountsAsStopped : a timer made with start_now = False is born `stopped`, and  *)
(*                        start() does not clear the flag; leaving the `with` block of a      *)
(*                        timer that was started by hand but not ended subtracts None        *)
(*   exitOverwritesEnd  : a printing start_now timer re-reads the clock when the block is     *)
(*                        left, so the time frozen by an earlier end() is replaced            *)
(* convert_suffix(v) splits v seconds (given in half seconds, so that a fraction exists)     *)
(* into days, hours, minutes and seconds;  Dev "secondsTruncated": the code prints the        *)
(* seconds with two decimals after having truncated them to an integer.                       *)
EXTENDS Integers, Sequences, FiniteSets, TLC
CONSTANT Dev
DevNames == {"manualStartCountsAsStopped", "exitOverwritesEnd", "secondsTruncated"}
CodeDev == DevNames
None == -99
Ok(v) == [kind |-> "ok", val |-> v]
Err == [kind |-> "error", val |-> None]

(* startNow, quiet: constructor flags; stopped: the flag of the class; st, en: start / end time or None; made: an object exists *)
NoTimer == [made |-> FALSE, startNow |-> FALSE, quiet |-> FALSE, stopped |-> FALSE, st |-> None, en |-> None]
Diff(a, b) == IF a = None \/ b = None THEN Err ELSE Ok(a - b)
TApply(s, o) ==
    CASE o.op = "new" ->
            <<[made |-> TRUE, startNow |-> o.startNow, quiet |-> o.quiet,
               stopped |-> IF "manualStartCountsAsStopped" \in Dev THEN ~o.startNow ELSE FALSE, st |-> None, en |-> None], Ok(0)>>
      [] ~s.made -> <<s, Err>>
      [] o.op = "enter" -> <<IF s.startNow THEN [s EXCEPT !.st = o.now] ELSE s, Ok(0)>>
      [] o.op = "start" -> <<[s EXCEPT !.st = o.now], Ok(0)>>
      [] o.op = "end" -> <<[s EXCEPT !.en = o.now, !.stopped = TRUE], Ok(0)>>
      [] o.op = "restart" -> <<[s EXCEPT !.stopped = FALSE, !.st = o.now, !.en = None], Ok(0)>>
      [] o.op = "elapsed" -> <<s, IF s.en = None THEN Diff(o.now, s.st) ELSE Diff(s.en, s.st)>>
      [] o.op = "exit" ->
            \* outcome: the time the block reports (None: nothing is reported - a quiet timer, or one that was never started)
            LET s1 == IF ~s.stopped THEN [s EXCEPT !.en = o.now, !.stopped = TRUE] ELSE s IN
            IF s.quiet THEN <<s1, Ok(None)>>
            ELSE IF s1.st = None /\ ~s1.startNow THEN <<s1, Ok(None)>>
            ELSE IF s1.startNow
                 THEN LET s2 == IF "exitOverwritesEnd" \in Dev THEN [s1 EXCEPT !.en = o.now] ELSE s1 IN <<s2, Diff(s2.en, s2.st)>>
                 ELSE <<s1, Diff(s1.en, s1.st)>>

(* convert_suffix with the default suffixes: v2 = value in half seconds; result <<days, hours, minutes, seconds in half seconds>> *)
Conv(v2) ==
    LET whole == v2 \div 2
        sec2 == IF "secondsTruncated" \in Dev THEN 2 * (whole % 60) ELSE v2 % 120
        mins == whole \div 60
        hrs == mins \div 60
    IN <<hrs \div 24, hrs % 24, mins % 60, sec2>>
Back(c) == ((c[1] * 24 + c[2]) * 60 + c[3]) * 120 + c[4]
=============================================================================
