------------------------------- MODULE Hermite ------------------------------
(* Exact reference semantics of a cubic Hermite piece (C17, used by C06).     *)
(* A cubic is <<c0,c1,c2,c3>> with integer coefficients; evaluation points    *)
(* are k/4.  All quantities are scaled integers, so TLC computes them         *)
(* exactly:  P64(c,k) = 64*p(k/4),  D16(c,k) = 16*p'(k/4).                    *)
(* The Hermite basis is evaluated exactly at s = n/d with n = k - 4*t0 and    *)
(* d = 4*(t1 - t0) (sign-normalised so that d > 0).                           *)
EXTENDS Integers, Sequences

HAbs(x) == IF x < 0 THEN -x ELSE x
P(c, t) == c[1] + c[2] * t + c[3] * t * t + c[4] * t * t * t
Dp(c, t) == c[2] + 2 * c[3] * t + 3 * c[4] * t * t
P64(c, k) == 64 * c[1] + 16 * c[2] * k + 4 * c[3] * k * k + c[4] * k * k * k
D16(c, k) == 16 * c[2] + 8 * c[3] * k + 3 * c[4] * k * k

Nn(t0, t1, k) == IF t1 > t0 THEN k - 4 * t0 ELSE -(k - 4 * t0)
Dd(t0, t1) == IF t1 > t0 THEN 4 * (t1 - t0) ELSE 4 * (t0 - t1)

(* d^3 * H(t): value of the Hermite interpolant built from the end data of c. *)
HermiteD3(c, t0, t1, k) ==
    LET n == Nn(t0, t1, k)  d == Dd(t0, t1)  dl == t1 - t0
        p0 == P(c, t0)  p1 == P(c, t1)  m0 == Dp(c, t0)  m1 == Dp(c, t1)
    IN  (2 * n * n * n - 3 * n * n * d + d * d * d) * p0
        + (n * n * n - 2 * n * n * d + n * d * d) * dl * m0
        + (-2 * n * n * n + 3 * n * n * d) * p1
        + (n * n * n - n * n * d) * dl * m1

(* d^2 * dl * H'(t): gradient of the interpolant.                              *)
HermiteGradD2(c, t0, t1, k) ==
    LET n == Nn(t0, t1, k)  d == Dd(t0, t1)  dl == t1 - t0
        p0 == P(c, t0)  p1 == P(c, t1)  m0 == Dp(c, t0)  m1 == Dp(c, t1)
    IN  (6 * n * n - 6 * n * d) * p0
        + (3 * n * n - 4 * n * d + d * d) * dl * m0
        + (-6 * n * n + 6 * n * d) * p1
        + (3 * n * n - 2 * n * d) * dl * m1

(* Condition scales (sum of the absolute values of the terms): the rounding   *)
(* error of any reasonable evaluation order is a small multiple of            *)
(* eps * scale.  ValScaleD3 = d^3 * scale, GradScaleD2 = d^2 * |dl| * scale.  *)
ValScaleD3(c, t0, t1, k) ==
    LET n == HAbs(Nn(t0, t1, k))  d == Dd(t0, t1)  dl == HAbs(t1 - t0)
        p0 == HAbs(P(c, t0))  p1 == HAbs(P(c, t1))  m0 == HAbs(Dp(c, t0))  m1 == HAbs(Dp(c, t1))
    IN  (2 * n * n * n + 3 * n * n * d + d * d * d) * p0
        + (n * n * n + 2 * n * n * d + n * d * d) * dl * m0
        + (2 * n * n * n + 3 * n * n * d) * p1
        + (n * n * n + n * n * d) * dl * m1 + d * d * d
GradScaleD2(c, t0, t1, k) ==
    LET n == HAbs(Nn(t0, t1, k))  d == Dd(t0, t1)  dl == HAbs(t1 - t0)
        p0 == HAbs(P(c, t0))  p1 == HAbs(P(c, t1))  m0 == HAbs(Dp(c, t0))  m1 == HAbs(Dp(c, t1))
    IN  (6 * n * n + 6 * n * d) * (p0 + p1)
        + (3 * n * n + 4 * n * d + d * d) * dl * m0
        + (3 * n * n + 2 * n * d) * dl * m1 + d * d * dl

(* The mathematical content of C17 for the Hermite piece, as exact identities. *)
ReproducesCubic(c, t0, t1, k) ==
    LET d == Dd(t0, t1) IN 64 * HermiteD3(c, t0, t1, k) = P64(c, k) * d * d * d
GradIsDerivative(c, t0, t1, k) ==
    LET d == Dd(t0, t1) IN 16 * HermiteGradD2(c, t0, t1, k) = D16(c, k) * d * d * (t1 - t0)
=============================================================================
