CONSTANTS MAXLEN = 5  GENLEN = 0
  Dev <- DevManual
SPECIFICATION Spec
INVARIANT StoppedTimerReportsItsSpan
INVARIANT EndFreezesTheTimer
INVARIANT StartedTimerReportsOnExit
INVARIANT RunningTimerFollowsTheClock
INVARIANT ConvertSuffixIsPositional
CHECK_DEADLOCK FALSE
