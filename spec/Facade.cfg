CONSTANTS T0 = 0  TF = 4  MAXN = 4
SPECIFICATION Spec
INVARIANT ReturnsExactlyTheRequestedTimesSorted
INVARIANT OneColumnPerRequestedTime
INVARIANT NeverIntegratesBackwards
INVARIANT RepeatedTimeIsANoOp
INVARIANT SortIsAPermutation
CHECK_DEADLOCK FALSE
