------------------------------ MODULE SolverJudge -----------------------------
(* Judge for C15.  One case per lattice cell of spec/Systems.tla: the outcome of    *)
(* the real solver call.                                                            *)
(*   outcome   "returned" | "raised" (the solver raised instead of returning: no      *)
(*             success is claimed)                                                    *)
(*   success   the success flag                                                       *)
(*   resUnits  ||F(x)|| / (tol * sqrt(n)), rounded up, F evaluated by the user's own    *)
(*             function at the returned point                                          *)
(*   shapeOk   the result has the shape of the initial guess                           *)
(*   hasRoot   ground truth from the specification                                     *)
EXTENDS Integers, Sequences, FiniteSets, TLC, Json, IOUtils, Bounds
In == JsonDeserialize(IOEnv.VF_IN)
Cases == In.cases
VARIABLES i, bad
vars == <<i, bad>>
V(o, cl) == [id |-> o.id, clause |-> cl]
CheckCase(o) ==
    IF o.outcome = "raised" THEN {}
    ELSE IF o.outcome # "returned" THEN {V(o, "C15.CellRuns")}
    ELSE (IF o.success /\ o.resUnits > ModestK THEN {V(o, "C15.SuccessImpliesSmallResidual")} ELSE {})
         \cup (IF o.success /\ ~o.hasRoot THEN {V(o, "C15.NoRootNoSuccess")} ELSE {})
         \cup (IF o.shapeOk THEN {} ELSE {V(o, "C15.ResultHasShapeOfGuess")})
         \cup (IF o.success /\ ~o.finite THEN {V(o, "C15.SuccessImpliesFinitePoint")} ELSE {})
Init == i = 1 /\ bad = {}
Next == /\ i <= Len(Cases)
        /\ bad' = bad \cup CheckCase(Cases[i])
        /\ i' = i + 1
Spec == Init /\ [][Next]_vars
Emit == (i = Len(Cases) + 1) => JsonSerialize(IOEnv.VF_OUT, [n |-> Len(Cases), bad |-> bad])
=============================================================================
