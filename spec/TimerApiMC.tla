------------------------------ MODULE TimerApiMC ------------------------------
EXTENDS TimerApi
NoDev == {}
DevManual == {"manualStartCountsAsStopped"}
DevExit == {"exitOverwritesEnd"}
DevTrunc == {"secondsTruncated"}
DevCode == CodeDev
=============================================================================
