------------------------------ MODULE DenseJudge -----------------------------
(* Judge for C06 (dense output is a consistent continuous extension).  One case  *)
(* per executed scenario:                                                         *)
(*   queries : [q, lo, hi (ranks of the ends of the piece that answered), kind    *)
(*             ("grid" | "inner"), exact (value equals the recorded state bit for  *)
(*             bit; grid points), tolUnits (|value - recorded| in units of          *)
(*             atol + rtol|y|; grid points of Richardson wrappers), vecAgree,       *)
(*             inRange, gradOk]                                                     *)
(*   pieces  : [m0Units, m1Units (end slopes against the right-hand side at the     *)
(*             piece's own end states, in units of eps max(1,|f|)), joins (the       *)
(*             piece starts where the previous one ends: same time and state)]       *)
(*   turned  : pieces of both orientations are stored (integrate() calls that turned round); a     *)
(*             grid query is then "amb" when some piece containing the time does not have it as an   *)
(*             end with the recorded state - the recorded state at that time is not unique            *)
(*   mids    : [quot] mid-step error divided by the Hermite bound (rational        *)
(*             problems only; exact arithmetic in the sensor)                       *)
EXTENDS Integers, Sequences, FiniteSets, TLC, Json, IOUtils, Bounds
In == JsonDeserialize(IOEnv.VF_IN)
Cases == In.cases
VARIABLES i, bad
vars == <<i, bad>>
V(o, cl, k) == [id |-> o.id, clause |-> cl, k |-> k]
Between(a, x, b) == (a <= x /\ x <= b) \/ (b <= x /\ x <= a)
CheckCase(o) ==
    {V(o, "C06.QueryAnsweredByContainingStep", k) : k \in {k \in 1..Len(o.queries) :
            o.queries[k].inRange /\ ~Between(o.queries[k].lo, o.queries[k].q, o.queries[k].hi)
            \* the pieces of a Richardson wrapper end at the sum of its sub-steps: a recorded time may lie a few rounding units beyond
            /\ (o.rich => o.queries[k].outUnits > UlpFew)}}
    \cup {V(o, "C06.RecordedStateReproduced", k) : k \in {k \in 1..Len(o.queries) :
            o.queries[k].kind = "grid" /\ ~(o.turned /\ o.queries[k].amb) /\ (IF o.rich THEN o.queries[k].tolUnits > DenseRichTolUnits ELSE ~o.queries[k].exact)}}
    \cup {V(o, "C06.ScalarAndArrayQueriesAgree", k) : k \in {k \in 1..Len(o.queries) : ~o.queries[k].vecAgree}}
    \cup {V(o, "C06.EndSlopesAreRhsAtRecordedStates", k) : k \in {k \in 1..Len(o.pieces) :
            IF o.rich THEN o.pieces[k].m0Tol > DenseRichTolUnits \/ o.pieces[k].m1Tol > DenseRichTolUnits
            ELSE o.pieces[k].m0Units > 0 \/ o.pieces[k].m1Units > 0}}
    \cup {V(o, "C06.PiecesJoin", k) : k \in {k \in 1..Len(o.pieces) :
            IF o.rich THEN o.pieces[k].joinTol > DenseRichTolUnits ELSE ~o.pieces[k].joins}}
    \cup {V(o, "C06.InterpolationErrorIsFourthOrder", k) : k \in {k \in 1..Len(o.mids) : o.mids[k].quot > DenseMidQuotient}}
    \cup (IF o.ok THEN {} ELSE {V(o, "C06.RunCompletes", 0)})
Init == i = 1 /\ bad = {}
Next == /\ i <= Len(Cases)
        /\ bad' = bad \cup CheckCase(Cases[i])
        /\ i' = i + 1
Spec == Init /\ [][Next]_vars
Emit == (i = Len(Cases) + 1) => JsonSerialize(IOEnv.VF_OUT, [n |-> Len(Cases), bad |-> bad])
=============================================================================
