CONSTANT MAXLEN = 4
SPECIFICATION Spec
INVARIANT Emit
CHECK_DEADLOCK FALSE
