-------------------------------- MODULE JacJudge ------------------------------
(* Judge for C16.  kind "fd": one finite-difference Jacobian of a map of             *)
(* spec/JacMaps.tla: shapeOk (layout f.shape ++ x.shape), units[k] = miss of entry k   *)
(* against the specification's exact Jacobian in units of the allowance (rounding for     *)
(* linear maps, the wrapper's tolerance otherwise), perm = the entries are where the      *)
(* layout [i..., j...] says.  kind "dispatch": one history of spec/DiffRHS.tla replayed     *)
(* on the real DiffRHS: for every Jacobian request who answered, at which times the        *)
(* right-hand side was evaluated on its behalf, the counters.                              *)
EXTENDS Integers, Sequences, FiniteSets, TLC, Json, IOUtils
In == JsonDeserialize(IOEnv.VF_IN)
Cases == In.cases
VARIABLES i, bad
vars == <<i, bad>>
V(o, cl, k) == [id |-> o.id, clause |-> cl, k |-> k]
CheckCase(o) ==
    IF o.kind = "fd" THEN
        (IF o.ran THEN {} ELSE {V(o, "C16.WrapperRuns", 0)})
        \cup (IF o.ran /\ ~o.shapeOk THEN {V(o, "C16.JacobianLayout", 0)} ELSE {})
        \cup (IF o.ran /\ o.shapeOk THEN {V(o, "C16.FiniteDifferenceJacobianIsTheDerivative", k) : k \in {k \in 1..Len(o.units) : o.units[k] > 1}} ELSE {})
    ELSE
        (IF o.ran THEN {} ELSE {V(o, "C16.DispatchRuns", 0)})
        \cup (IF o.ran /\ Len(o.got) # Len(o.expect) THEN {V(o, "C16.EveryRequestAnswered", 0)} ELSE {})
        \cup (IF o.ran /\ Len(o.got) = Len(o.expect)
              THEN {V(o, "C16.UserJacobianReturnedWhenAttached", k) : k \in {k \in 1..Len(o.got) : o.expect[k].by # "fd" /\ o.got[k].by # o.expect[k].by}}
                   \cup {V(o, "C16.RightHandSideDifferentiatedWhenNoUserJacobian", k) : k \in {k \in 1..Len(o.got) : o.expect[k].by = "fd" /\ o.got[k].by # "fd"}}
                   \cup {V(o, "C16.DifferentiatedAtTheRequestedTime", k) : k \in {k \in 1..Len(o.got) : o.got[k].by = "fd" /\ ~o.got[k].timesOk}}
                   \cup {V(o, "C16.DifferentiatedAtTheRequestedState", k) : k \in {k \in 1..Len(o.got) : o.got[k].by = "fd" /\ ~o.got[k].stateOk}}
                   \cup {V(o, "C16.FiniteDifferenceJacobianIsTheDerivative", k) : k \in {k \in 1..Len(o.got) : o.got[k].by = "fd" /\ ~o.got[k].valueOk}}
              ELSE {})
        \cup (IF o.ran /\ o.njev # Len(o.expect) THEN {V(o, "C20.NjevCountsJacobianRequests", 0), V(o, "C16.CountersExact", 0)} ELSE {})
        \cup (IF o.ran /\ ~o.nfevOk THEN {V(o, "C16.CountersExact", 0)} ELSE {})
Init == i = 1 /\ bad = {}
Next == /\ i <= Len(Cases)
        /\ bad' = bad \cup CheckCase(Cases[i])
        /\ i' = i + 1
Spec == Init /\ [][Next]_vars
Emit == (i = Len(Cases) + 1) => JsonSerialize(IOEnv.VF_OUT, [n |-> Len(Cases), bad |-> bad])
=============================================================================
