------------------------------- MODULE ApiModel -------------------------------
(* Growth beyond the listed properties: the sequential meaning of the small public     *)
(* operations of OdeSystem (setters with their validation, method selection, reset,      *)
(* integrate to the end, printing) as a reference function Apply(state, op).            *)
(* SystemApi.tla explores every operation sequence with TLC and generates histories;       *)
(* ApiJudge.tla validates traces recorded from the real object against Apply step by step.  *)
(* Times are ticks; the recorded trajectory is abstracted to (position, number of rows).     *)
EXTENDS Integers, Sequences, FiniteSets, TLC, Json, IOUtils, SequencesExt
Ticks == {-2, 0, 2}
Methods == {"RK4", "Explicit RK4", "Runge-Kutta 4", "Euler", "bogus"}      \* three aliases of one class, another class, an unknown name
Canon(mth) == IF mth \in {"RK4", "Explicit RK4", "Runge-Kutta 4"} THEN "RK4Solver" ELSE IF mth = "Euler" THEN "EulerSolver" ELSE "none"
Sgn(x) == IF x > 0 THEN 1 ELSE IF x < 0 THEN -1 ELSE 0
Ops == {[op |-> "setTf", v |-> v] : v \in Ticks} \cup {[op |-> "setT0", v |-> v] : v \in Ticks}
       \cup {[op |-> "setDt", v |-> v] : v \in {-1, 1}} \cup {[op |-> "setMethod", v |-> m] : m \in Methods}
       \cup {[op |-> "integrate", v |-> 0], [op |-> "reset", v |-> 0], [op |-> "print", v |-> 0]}
       \cup {[op |-> "integrateTo", v |-> v] : v \in Ticks}          \* integrate(t = v): any target, before or beyond tf, forward or backward

Init0 == [t0 |-> 0, tf |-> 2, dtSign |-> {1}, status |-> "notrun", method |-> "RK4Solver", pos |-> 0, pos0 |-> 0, moved |-> FALSE, rows |-> 1]      \* pos0: the time of the first recorded row (the constructor's t0; setting t0 later does not move it)

(* the reference effect of one operation: <<new state, outcome>>.  dtSign is the SET of signs the step may have: the run    *)
(* loop points the step from the current position to the target before every step, but every step except a clamped last one     *)
(* stores the controller's step through the dt setter, which points it along the span t0 -> tf: after a run that starts away     *)
(* from t0 either sign can remain (found by validating traces of the real object).                                               *)
Apply(s, o) ==
    CASE o.op = "setTf" -> IF o.v = s.t0 THEN <<s, "ValueError">>
                            ELSE <<[s EXCEPT !.tf = o.v, !.dtSign = {Sgn(o.v - s.t0)}], "ok">>
      [] o.op = "setT0" -> IF o.v = s.tf THEN <<s, "ValueError">>
                            ELSE <<[s EXCEPT !.t0 = o.v, !.dtSign = {Sgn(s.tf - o.v)}], "ok">>
      [] o.op = "setDt" -> <<[s EXCEPT !.dtSign = {Sgn(s.tf - s.t0)}], "ok">>
      [] o.op = "setMethod" -> IF Canon(o.v) = "none" THEN <<s, "ValueError">> ELSE <<[s EXCEPT !.method = Canon(o.v)], "ok">>
      [] o.op = "integrate" -> IF s.pos = s.tf THEN <<s, "ok">>
                                ELSE <<[s EXCEPT !.pos = s.tf, !.status = "done", !.moved = TRUE, !.dtSign = {Sgn(s.tf - s.pos), Sgn(s.tf - s.t0)}, !.rows = 2], "ok">>
      [] o.op = "integrateTo" -> IF s.pos = o.v THEN <<s, "ok">>
                                  ELSE <<[s EXCEPT !.pos = o.v, !.status = "done", !.moved = TRUE, !.dtSign = {Sgn(o.v - s.pos), Sgn(s.tf - s.t0)}, !.rows = 2], "ok">>
      [] o.op = "reset" -> <<[s EXCEPT !.pos = s.pos0, !.status = "notrun", !.moved = FALSE, !.dtSign = {Sgn(s.tf - s.t0)}, !.rows = 1], "ok">>
      [] o.op = "print" -> <<s, "ok">>

Project(s) == [t0 |-> s.t0, tf |-> s.tf, dtSign |-> s.dtSign, status |-> s.status, method |-> s.method, rows |-> s.rows, atEnd |-> (s.pos = s.tf)]
=============================================================================
