------------------------------ MODULE EventJudge -----------------------------
(* Judge for C07 (reported events are genuine, located, direction compatible,   *)
(* unique) and C08 (no crossing is missed).  One case per executed scenario:     *)
(*   steps  : one record per (accepted step, event function) of the call:         *)
(*            [ev, change (strict sign change of g between the two recorded       *)
(*             rows), rising (g goes from <0 to >0 along the run), dirn (the      *)
(*             direction the event function requests), nInside (number of         *)
(*             recorded events of ev in the closed step), fwd]                    *)
(*   recs   : one record per recorded event [ev, gUnits, ySol ("exact" | "off" |  *)
(*            "differs"), rootGap (-1 = no ground truth), rootTol (-1 = none),    *)
(*            rising, dirn, fwd]                                                   *)
(*   truths : ground truth the scenario defines for time events                  *)
(*            [ev, gaps (|t_e - root| of every recorded event of ev, in units of  *)
(*             eps max(1,|root|)), reached, mustReport]                           *)
(* Direction: the library reads "direction" along the direction of integration;  *)
(* for backward runs the other reading (along increasing time) is accepted too    *)
(* (DESIGN.md 7.4), i.e. a violation needs both readings to fail.                *)
EXTENDS Integers, Sequences, FiniteSets, TLC, Json, IOUtils, Bounds
In == JsonDeserialize(IOEnv.VF_IN)
Cases == In.cases
VARIABLES i, bad
vars == <<i, bad>>
V(o, cl, k) == [id |-> o.id, clause |-> cl, k |-> k]

(* Is a crossing with the given sense compatible with the requested direction?  "rising" is measured ALONG THE RUN (g goes from  *)
(* negative at the end of the step the integration comes from to positive at the end it goes to).  On backward runs this is the    *)
(* reading of the pinned library and of scipy.integrate.solve_ivp, whose event code it adapts and whose drop-in replacement its      *)
(* facade claims to be (active events are classified from g at the old end and g at the new end of the step).  An earlier version     *)
(* of this judge accepted either reading on backward runs; a seeded change that flips the reading showed that this was too weak.     *)
Compat(dirn, rising, fwd) ==
    \/ dirn = 0
    \/ (dirn > 0) = rising

(* must a crossing be reported? *)
MustReport(dirn, rising, fwd) ==
    \/ dirn = 0
    \/ (dirn > 0) = rising

Matches(t) == Cardinality({j \in 1..Len(t.gaps) : t.gaps[j] <= EventRootGapUnits})

CheckCase(o) ==
    {V(o, "C08.NoCrossingMissed", k) : k \in {k \in 1..Len(o.steps) :
            o.steps[k].change /\ MustReport(o.steps[k].dirn, o.steps[k].rising, o.steps[k].fwd) /\ o.steps[k].nInside = 0}}
    \cup {V(o, "C08.GroundTruthCrossingReported", k) : k \in {k \in 1..Len(o.truths) :
            o.truths[k].reached /\ o.truths[k].mustReport /\ Matches(o.truths[k]) = 0}}
    \cup {V(o, "C07.NoCrossingReportedTwice", k) : k \in {k \in 1..Len(o.truths) : Matches(o.truths[k]) > 1}}
    \cup {V(o, "C07.ResidualVanishes", k) : k \in {k \in 1..Len(o.recs) : o.recs[k].gUnits > EventResidualUnits}}
    \cup {V(o, "C07.StateIsDenseSolutionAtEvent", k) : k \in {k \in 1..Len(o.recs) : o.recs[k].ySol = "differs"}}
    \cup {V(o, "C07.EventIsATrueRoot", k) : k \in {k \in 1..Len(o.recs) :
            (o.recs[k].rootGap # -1 /\ o.recs[k].rootGap > EventRootGapUnits) \/ (o.recs[k].rootTol # -1 /\ o.recs[k].rootTol > EventRootTolUnits)}}
    \cup {V(o, "C07.DirectionCompatible", k) : k \in {k \in 1..Len(o.recs) :
            o.recs[k].sense # "flat" /\ ~Compat(o.recs[k].dirn, o.recs[k].sense = "rising", o.recs[k].fwd)}}
    \cup (IF o.ok THEN {} ELSE {V(o, "C07.RunCompletes", 0), V(o, "C08.RunCompletes", 0)})

Init == i = 1 /\ bad = {}
Next == /\ i <= Len(Cases)
        /\ bad' = bad \cup CheckCase(Cases[i])
        /\ i' = i + 1
Spec == Init /\ [][Next]_vars
Emit == (i = Len(Cases) + 1) => JsonSerialize(IOEnv.VF_OUT, [n |-> Len(Cases), bad |-> bad])
=============================================================================
