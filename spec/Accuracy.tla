------------------------------- MODULE Accuracy ------------------------------
(* C05 accuracy clause on problems whose exact solution is rational, so that the *)
(* specification itself supplies y(T):                                           *)
(*   "rat"   y' = -y^2,      y(0) = 1   =>  y(T) = 1/(1+T)                       *)
(*   "tdep"  y' = -2 t y^2,  y(0) = 1   =>  y(T) = 1/(1+T^2)                     *)
(*   "pair"  a coupled system with components of different magnitude:            *)
(*           y1' = -y1 y2, y2' = -y2^2, y3' = -2 t y3^2 / A;  y(0) = (3, 1, A)    *)
(*           =>  y(T) = (3/(1+T), 1/(1+T), A/(1+T^2)),  A = 2^-20                 *)
(*           (the error norm of the controller is component-wise: an error norm  *)
(*           dominated by the large components loses the small one)              *)
(*   "decay" y' = -y,         y(0) = 1   =>  y(T) = exp(-T) = b^k with b = exp(-1/8), T = k/8 = 20, 40.  b is irrational; the        *)
(*           specification supplies the ENCLOSURE S_5 < b < S_6 by the partial sums of the alternating series of exp(-1/8)            *)
(*           (terms decrease, so consecutive partial sums enclose the limit), over the common denominator 8^6 6!; TLC checks          *)
(*           the arithmetic (EnclosureIsTight).  y(T) lies in [S_5^k, S_6^k], relative width < 2e-6: enough for rtol >= 1e-6.          *)
(*           The tolerance is almost purely relative (atol = 1e-26 rtol) and the solution decays by 17 orders of magnitude:           *)
(*           a controller that weighs the error against a scale remembered from earlier steps is off by that much.                    *)
(* with T = k/8.  Amp is a bound on the problem's own error amplification        *)
(* |dy(T)/dy(0)| = y(T)^2 (and at least 1).                                      *)
(* With $VF_OUT and no $VF_IN the module writes the case list (generator); with  *)
(* $VF_IN it judges the observations: the sensor reports errUnits =              *)
(* ceil(|y_obs - y(T)| / (atol + rtol |y(T)|)) computed in exact arithmetic.     *)
EXTENDS Integers, Sequences, FiniteSets, TLC, Json, IOUtils, Bounds, SequencesExt

DecayDen == 188743680                    \* 8^6 * 6!
RECURSIVE Fact(_), Pow8(_)
Fact(n) == IF n = 0 THEN 1 ELSE n * Fact(n - 1)
Pow8(n) == IF n = 0 THEN 1 ELSE 8 * Pow8(n - 1)
RECURSIVE PartialSum(_)                  \* numerator of S_n = SUM_{j <= n} (-1/8)^j / j! over DecayDen
PartialSum(n) == (IF n = 0 THEN 0 ELSE PartialSum(n - 1)) + (IF n % 2 = 0 THEN 1 ELSE -1) * (DecayDen \div (Pow8(n) * Fact(n)))
DecayLo == PartialSum(5)
DecayHi == PartialSum(6)
EnclosureIsTight == /\ DecayDen = Pow8(6) * Fact(6) /\ \A n \in 0..6 : DecayDen % (Pow8(n) * Fact(n)) = 0
                    /\ DecayHi - DecayLo = 1 /\ DecayLo > 0          \* the two sums differ by the 6th term, 1 / DecayDen
DecayKs == {160, 320}
Problems == {"rat", "tdep", "tdepsmall", "pair"}     \* tdepsmall: y' = -2 t y^2 / A, y(0) = A = 2^-20, y(T) = A/(1+T^2)
Ks == {-4, -3, 4, 8, 16}         \* T = k/8 : -1/2, -3/8, 1/2, 1, 2
ExactNum(p, k) == IF p = "rat" THEN 8 ELSE IF p = "pair" THEN 24 ELSE 64
ExactDen(p, k) == IF p \in {"rat", "pair"} THEN 8 + k ELSE IF p = "tdep" THEN 64 + k * k ELSE (64 + k * k) * 1048576
(* all components; the scalar problems have one *)
Comps(p, k) == IF p = "decay" THEN <<[num |-> DecayLo, den |-> DecayDen], [num |-> DecayHi, den |-> DecayDen]>>       \* enclosure of the base b: y(T) in [lo^k, hi^k]
               ELSE IF p = "pair" THEN <<[num |-> 24, den |-> 8 + k], [num |-> 8, den |-> 8 + k], [num |-> 64, den |-> (64 + k * k) * 1048576]>>
               ELSE <<[num |-> ExactNum(p, k), den |-> ExactDen(p, k)]>>
Abs(x) == IF x < 0 THEN -x ELSE x
Max2(a, b) == IF a > b THEN a ELSE b
CeilDiv(a, b) == (a + b - 1) \div b
(* pair: |dy1(T)/dy1(0)| + |dy1(T)/dy2(0)| = 1/(1+T) + 3|T|/(1+T)^2 = (8 (8+k) + 24 |k|) / (8+k)^2;  dy2(T)/dy2(0) = y2(T)^2 *)
AmpPair(k) == Max2(1, Max2(CeilDiv(8 * (8 + k) + 24 * Abs(k), (8 + k) * (8 + k)), CeilDiv(64, (8 + k) * (8 + k))))
(* ceil(y(T)^2) bounded below by 1 *)
Amp(p, k) ==
    LET n == ExactNum(p, k) d == IF p = "tdepsmall" THEN 1 ELSE ExactDen(p, k)
        q == (n * n + d * d - 1) \div (d * d)
    IN  IF p = "decay" THEN 1 ELSE IF p = "pair" THEN AmpPair(k) ELSE IF p = "tdepsmall" THEN 1 ELSE IF q < 1 THEN 1 ELSE q

GenOut == [cases |-> SetToSeq({[problem |-> p, k |-> k, num |-> ExactNum(p, k), den |-> ExactDen(p, k), amp |-> Amp(p, k), comps |-> Comps(p, k)]
                               : p \in Problems, k \in Ks}
                              \cup {[problem |-> "decay", k |-> k, num |-> DecayLo, den |-> DecayDen, amp |-> 1, comps |-> Comps("decay", k)] : k \in DecayKs})]
ASSUME EnclosureIsTight

HasIn == "VF_IN" \in DOMAIN IOEnv
In == IF HasIn THEN JsonDeserialize(IOEnv.VF_IN) ELSE [cases |-> << >>]
Cases == In.cases

VARIABLES i, bad
vars == <<i, bad>>
CheckCase(o) ==
    (IF (o.problem = "decay" \/ (o.num = ExactNum(o.problem, o.k) /\ o.den = ExactDen(o.problem, o.k))) /\ o.comps = Comps(o.problem, o.k) THEN {} ELSE {[id |-> o.id, clause |-> "C05.SensorUsedSpecSolution"]})
    \cup (IF o.ok THEN {} ELSE {[id |-> o.id, clause |-> "C05.RunCompletes"]})
    \cup (IF o.ok /\ o.errUnits > AccuracyK * Amp(o.problem, o.k) THEN {[id |-> o.id, clause |-> "C05.GlobalErrorProportionalToTolerance"]} ELSE {})
    \cup (IF o.ok /\ o.endUnits > EndUnits THEN {[id |-> o.id, clause |-> "C05.ReachesTheEndTime"]} ELSE {})
Init == i = 1 /\ bad = {}
Next == /\ i <= Len(Cases)
        /\ bad' = bad \cup CheckCase(Cases[i])
        /\ i' = i + 1
Spec == Init /\ [][Next]_vars
Emit == (i = Len(Cases) + 1) =>
            IF HasIn THEN JsonSerialize(IOEnv.VF_OUT, [n |-> Len(Cases), bad |-> bad])
            ELSE JsonSerialize(IOEnv.VF_OUT, GenOut)
=============================================================================
