CONSTANTS
  T0S <- MCT0S
  TFS <- MCTFS
  DTS <- MCDTS
  TARGETS <- IndefTARGETS
  ADAPTIVE = FALSE
  ROOTS <- Roots1
  DENSE = TRUE
  MAXCALLS = 3
  MAXROWS = 7
  FAULTS = TRUE
  CBDTS <- NoCb
  Dev <- NoDev
SPECIFICATION Spec
CONSTRAINT StateConstraint
INVARIANT TypeOK
INVARIANT FirstRowIsInitial
INVARIANT SegmentMonotone
INVARIANT PiecesAreSteps
INVARIANT QueriesAnsweredByContainingStep
INVARIANT ScalarAndArrayQueriesAgree
INVARIANT EventsAreRoots
INVARIANT NoEventTwice
PROPERTY EndsAtTarget
PROPERTY NoOvershootOnCommit
PROPERTY Progress
PROPERTY FixedStepsEqualDt
PROPERTY FixedDtKeptBetweenSteps
PROPERTY TerminalStop
PROPERTY IndefiniteRunStopsOnlyAtATerminalEvent
PROPERTY FailureLeavesPrefix
PROPERTY ResetRestores
PROPERTY CallAtTargetChangesNothing
CHECK_DEADLOCK FALSE
