CONSTANTS MAXLEN = 4  GENLEN = 0
  Dev <- DevTurn
SPECIFICATION Spec
INVARIANT AnsweredByContainingPiece
INVARIANT TimesPairWithPieces
INVARIANT BoundsAreTheCoveredRange
CHECK_DEADLOCK FALSE
