------------------------------- MODULE Lookup -------------------------------
(* Reference semantics of the lookup primitives of desolver.                 *)
(*   search_bisection / search_bisection_vec  (C17)                          *)
(*   OdeSystem.__getitem__ / __iter__ / __len__ (C19)                        *)
(* Arrays are TLA+ sequences (1-based); every index handed to or from the    *)
(* implementation is 0-based, as in Python.                                  *)
EXTENDS Integers, Sequences, FiniteSets

Abs(x) == IF x < 0 THEN -x ELSE x
MinOf(S) == CHOOSE x \in S : \A y \in S : x <= y
MaxOf(S) == CHOOSE x \in S : \A y \in S : y <= x

StrictlyIncreasing(a) == \A i \in 1..(Len(a) - 1) : a[i] < a[i + 1]
StrictlyDecreasing(a) == \A i \in 1..(Len(a) - 1) : a[i] > a[i + 1]

(* C17: index (0-based) of the first element not smaller than q, clipped to   *)
(* the last index.                                                           *)
Bisect(a, q) ==
    LET S == {i \in 1..Len(a) : a[i] >= q}
    IN  IF S = {} THEN Len(a) - 1 ELSE MinOf(S) - 1

(* C19: integer indexing like a Python sequence of length n.                  *)
IndexInt(n, i) ==
    IF i >= 0 /\ i < n THEN [ok |-> TRUE, row |-> i]
    ELSE IF i < 0 /\ i >= -n THEN [ok |-> TRUE, row |-> n + i]
    ELSE [ok |-> FALSE, row |-> -1]

(* C19: the recorded samples nearest in time to q (0-based rows; a tie gives  *)
(* two admissible answers).  Works for increasing and decreasing grids.      *)
NearestRows(grid, q) ==
    LET d(i) == Abs(grid[i] - q)
        best == MinOf({d(i) : i \in 1..Len(grid)})
    IN  {i - 1 : i \in {j \in 1..Len(grid) : d(j) = best}}

(* C19: a time slice [a:b] that spans the whole run returns the whole run.    *)
SpansRun(grid, a, b) ==
    LET lo == MinOf({grid[i] : i \in 1..Len(grid)})
        hi == MaxOf({grid[i] : i \in 1..Len(grid)})
    IN  (a <= lo /\ b >= hi)

(* Subsequences of 1..n as strictly increasing index sequences (helper for    *)
(* the exhaustive generators).                                               *)
SortedSeq(S) ==
    LET RECURSIVE Build(_)
        Build(T) == IF T = {} THEN << >> ELSE LET m == MinOf(T) IN <<m>> \o Build(T \ {m})
    IN  Build(S)
=============================================================================
