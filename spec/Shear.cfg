CONSTANTS N = 5
  CS <- MCCS
SPECIFICATION Spec
INVARIANT CompositionOfShearsIsSymplectic
INVARIANT PalindromicCompositionIsReversible
CHECK_DEADLOCK FALSE
