CONSTANT Dev <- CodeDev
SPECIFICATION Spec
INVARIANT Emit
CHECK_DEADLOCK FALSE
