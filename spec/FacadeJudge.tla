------------------------------ MODULE FacadeJudge -----------------------------
(* Judge for C18: facts about one solve_ivp call on the real code and about the same  *)
(* problem driven through the object API (and scipy).                                 *)
EXTENDS Integers, Sequences, FiniteSets, TLC, Json, IOUtils, Bounds
In == JsonDeserialize(IOEnv.VF_IN)
Cases == In.cases
VARIABLES i, bad
vars == <<i, bad>>
V(o, cl) == [id |-> o.id, clause |-> cl]
CheckCase(o) ==
    IF ~o.ran THEN {V(o, "C18.CallRuns")} ELSE
    (IF o.tShapeOk /\ o.yShapeOk THEN {} ELSE {V(o, "C18.ResultShapes")})
    \cup (IF o.startsAtInitialCondition THEN {} ELSE {V(o, "C18.StartsAtInitialCondition")})
    \cup (IF o.columnsPair THEN {} ELSE {V(o, "C18.ColumnsPairWithTimes")})
    \cup (IF o.hasTEval /\ ~(Len(o.tGaps) = o.nTEval /\ \A k \in 1..Len(o.tGaps) : o.tGaps[k] <= EndUnits) THEN {V(o, "C18.ReturnsExactlyTheRequestedTimesSorted")} ELSE {})
    \cup (IF o.sortedNondecreasing THEN {} ELSE {V(o, "C18.TimesSorted")})
    \cup (IF o.callerListUntouched THEN {} ELSE {V(o, "C18.CallerCallbackListUntouched")})
    \cup (IF o.beyondEvent THEN {V(o, "C18.NothingReturnedBeyondATerminalEvent")} ELSE {})
    \cup (IF o.wantEvents # -1 /\ o.nEvents # o.wantEvents THEN {V(o, "C18.TerminalEventReportedOnce")} ELSE {})
    \* without t_eval and without a terminal event the returned times end at the end of the span (either direction; found when a
    \* backward span with max_step came back "successful" after one step)
    \cup (IF o.endUnits <= EndUnits THEN {} ELSE {V(o, "C18.ReachesTheEndOfTheSpan")})
    \cup (IF o.solTolUnits # -1 /\ o.solTolUnits > ModestK * 10 THEN {V(o, "C18.SolutionAtRequestedTimesToTolerance")} ELSE {})
    \cup (IF o.argsBoundInOrder THEN {} ELSE {V(o, "C18.ArgsBoundInOrder")})
    \cup (IF o.maxStepUnits <= UlpFew THEN {} ELSE {V(o, "C18.NoStepLongerThanMaxStep")})
    \cup (IF o.fieldsOfUnderlyingSystem THEN {} ELSE {V(o, "C18.ResultFieldsAreTheUnderlyingSystems")})
    \cup (IF o.objectApiIdentical THEN {} ELSE {V(o, "C18.AgreesWithObjectApi")})
    \cup (IF o.scipyTolUnits # -1 /\ o.scipyTolUnits > 1000 THEN {V(o, "C18.AgreesWithScipyToTolerance")} ELSE {})
Init == i = 1 /\ bad = {}
Next == /\ i <= Len(Cases)
        /\ bad' = bad \cup CheckCase(Cases[i])
        /\ i' = i + 1
Spec == Init /\ [][Next]_vars
Emit == (i = Len(Cases) + 1) => JsonSerialize(IOEnv.VF_OUT, [n |-> Len(Cases), bad |-> bad])
=============================================================================
