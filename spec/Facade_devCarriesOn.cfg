CONSTANTS T0 = 0  TF = 4  MAXN = 4
  Dev = {"carriesOnPastTheEvent"}
SPECIFICATION Spec
INVARIANT ReturnsExactlyTheRequestedTimesSorted
INVARIANT OneColumnPerRequestedTime
INVARIANT NothingReturnedBeyondATerminalEvent
INVARIANT TerminalEventReportedOnce
INVARIANT NeverIntegratesBackwards
INVARIANT RepeatedTimeIsANoOp
INVARIANT SortIsAPermutation
CHECK_DEADLOCK FALSE
