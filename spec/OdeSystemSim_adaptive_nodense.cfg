CONSTANTS
  T0S <- SimT0S
  TFS <- SimTFS
  DTS <- SimDTSAd
  TARGETS <- SimTARGETS
  ADAPTIVE = TRUE
  ROOTS <- SimRootsAd
  DENSE = FALSE
  MAXCALLS = 3
  MAXROWS = 14
  FAULTS = FALSE
  CBDTS <- Cb1
  Dev <- DevCode
SPECIFICATION SimSpec
CONSTRAINT SimConstraintAd
INVARIANT EmitLog
CHECK_DEADLOCK FALSE
