CONSTANTS MAXLEN = 4  GENLEN = 0
  Dev <- NoDev
SPECIFICATION Spec
INVARIANT AnsweredByContainingPiece
INVARIANT TimesPairWithPieces
INVARIANT BoundsAreTheCoveredRange
CHECK_DEADLOCK FALSE
