-------------------------------- MODULE DiffRHS -------------------------------
(* The Jacobian dispatch of the right-hand-side wrapper (C16) as a state machine:    *)
(*   Jac(t)   a Jacobian request at time t                                            *)
(*   Hook     hook_jacobian_call(fn)            Assign   wrapper.jac = fn              *)
(*   Unhook   unhook_jacobian_call()            Order    set_jac_base_order(k): changes   *)
(*            the order of the finite differences, never who answers nor the time       *)
(* with the user's function possibly carrying a `jac` attribute (ATTR).  Reference:    *)
(* a request is answered by the hooked / assigned function if one is attached,          *)
(* otherwise by the attribute, otherwise by differentiating the right-hand side AT THE   *)
(* REQUESTED TIME.  TLC enumerates every history up to MAXLEN, checks the invariants      *)
(* and - with $VF_OUT - writes the histories with the expected answer of every request    *)
(* so that the actuator replays each one on the real DiffRHS.                            *)
EXTENDS Integers, Sequences, FiniteSets, TLC, Json, IOUtils, SequencesExt
CONSTANTS MAXLEN
Ops == {"jac1", "jac2", "jac0", "hook", "assign", "unhook", "order"}     \* jac1 / jac2 / jac0: requests at two distinct times and at time 0
TimeOf(op) == IF op = "jac1" THEN 1 ELSE IF op = "jac2" THEN 2 ELSE 0
IsJac(op) == op \in {"jac1", "jac2", "jac0"}

VARIABLES attr, hist, hooked, answers, njev
vars == <<attr, hist, hooked, answers, njev>>
Init == attr \in BOOLEAN /\ hist = << >> /\ hooked = "none" /\ answers = << >> /\ njev = 0

Answer(op) == IF hooked # "none" THEN [by |-> hooked, t |-> TimeOf(op)]
              ELSE IF attr THEN [by |-> "attr", t |-> TimeOf(op)]
              ELSE [by |-> "fd", t |-> TimeOf(op)]
Do(op) ==
    /\ Len(hist) < MAXLEN
    /\ hist' = Append(hist, op)
    /\ IF IsJac(op) THEN /\ answers' = Append(answers, Answer(op)) /\ njev' = njev + 1 /\ UNCHANGED hooked
       ELSE /\ hooked' = IF op = "hook" THEN "hook" ELSE IF op = "assign" THEN "assign" ELSE "none"
            /\ UNCHANGED <<answers, njev>>
    /\ UNCHANGED attr
Next == \E op \in Ops : Do(op)
Spec == Init /\ [][Next]_vars

UserJacobianWins == \A k \in 1..Len(answers) : (answers[k].by = "fd") => ~attr
CounterCountsRequests == njev = Len(answers)
FdOnlyWithoutUserJacobian == \A k \in 1..Len(answers) : answers[k].by = "fd" => (~attr)
=============================================================================
