CONSTANTS LEVELS = 4
  Dev = {"signedComparison"}
SPECIFICATION Spec
INVARIANT AllLevelsIntegrateTheStepReported
INVARIANT ReportedStepNotLongerThanRequested
CHECK_DEADLOCK FALSE
