CONSTANTS PMAX = 8  LMAX = 5  JSPAN = 6
  Dev <- DevRow
SPECIFICATION Spec
INVARIANT NeverLowerThanBase
INVARIANT StrictlyHigherWithThreeLevels
INVARIANT OrderFormula
CHECK_DEADLOCK FALSE
