------------------------------ MODULE DiffRHSGen2 -----------------------------
(* Two right-hand-side wrappers around ONE user function (what OdeSystem makes when it copies   *)
(* the wrapper it is given, or two systems built from one decorated function).  The dispatch      *)
(* state of DiffRHS.tla - who answers a Jacobian request, and at which time the right-hand side     *)
(* is differentiated - belongs to the wrapper: nothing one wrapper does or is asked changes what      *)
(* the other answers.  Only the user function's own `jac` attribute is shared.                        *)
(* The module generates every interleaved history up to MAXLEN over the two wrappers with the          *)
(* expected answer of every request, and TLC checks NON-INTERFERENCE on all of them: the answers a      *)
(* wrapper gives in an interleaved history are those it gives in the history restricted to itself.       *)
EXTENDS Integers, Sequences, FiniteSets, TLC, Json, IOUtils, SequencesExt
CONSTANTS MAXLEN
Ws == <<"A", "B">>
BaseOps == <<"jac1", "jac2", "jac0", "hook", "unhook">>
Ops == [k \in 1..(Len(Ws) * Len(BaseOps)) |-> [w |-> Ws[((k - 1) \div Len(BaseOps)) + 1], op |-> BaseOps[((k - 1) % Len(BaseOps)) + 1]]]
TimeOf(op) == IF op = "jac1" THEN 1 ELSE IF op = "jac2" THEN 2 ELSE 0
IsJac(op) == op \in {"jac1", "jac2", "jac0"}
RECURSIVE Hists(_)
Hists(n) == IF n = 0 THEN {<< >>} ELSE LET P == Hists(n - 1) IN P \cup {Append(h, Ops[k]) : h \in {x \in P : Len(x) = n - 1}, k \in 1..Len(Ops)}
(* expected answers of history h from position k; hooked: wrapper -> "none" | "hook" *)
RECURSIVE Run(_, _, _, _)
Run(h, k, hooked, attr) ==
    IF k > Len(h) THEN << >>
    ELSE LET e == h[k] IN
         IF IsJac(e.op)
         THEN <<[w |-> e.w, by |-> IF hooked[e.w] # "none" THEN hooked[e.w] ELSE IF attr THEN "attr" ELSE "fd", t |-> TimeOf(e.op)]>> \o Run(h, k + 1, hooked, attr)
         ELSE Run(h, k + 1, [hooked EXCEPT ![e.w] = IF e.op = "hook" THEN "hook" ELSE "none"], attr)
None2 == [w \in {"A", "B"} |-> "none"]
Answers(h, a) == Run(h, 1, None2, a)
OnlyOf(s, w) == SelectSeq(s, LAMBDA e : e.w = w)
Interesting(h) == (\E k \in 1..Len(h) : IsJac(h[k].op) /\ h[k].w = "A") /\ (\E k \in 1..Len(h) : h[k].w = "B")
All == {h \in Hists(MAXLEN) : Interesting(h)}
NonInterference == \A h \in All : \A a \in BOOLEAN : \A w \in {"A", "B"} : OnlyOf(Answers(h, a), w) = Answers(OnlyOf(h, w), a)
ASSUME NonInterference
VARIABLE done
Init == done = FALSE
Next == ~done /\ done' = TRUE
Spec == Init /\ [][Next]_done
Emit == done => JsonSerialize(IOEnv.VF_OUT, [histories |-> SetToSeq({[ops |-> h, attr |-> a, expect |-> Answers(h, a)] : h \in All, a \in BOOLEAN})])
=============================================================================
