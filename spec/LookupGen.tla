----------------------------- MODULE LookupGen ------------------------------
(* Generator: writes the exhaustive case list of LookupAlg (arrays, queries)  *)
(* as JSON so that the actuator runs the real code on exactly the cases the   *)
(* specification enumerates.                                                  *)
EXTENDS Lookup, TLC, Json, IOUtils, SequencesExt
CONSTANTS G, MaxLen
GridPts == {2 * k : k \in 0..(G - 1)}
Arrays == {SortedSeq(S) : S \in {T \in SUBSET GridPts : Cardinality(T) >= 1 /\ Cardinality(T) <= MaxLen}}
Queries == (-2)..(2 * G)
VARIABLE done
Init == done = FALSE
Next == ~done /\ done' = TRUE
Spec == Init /\ [][Next]_done
Emit == done => JsonSerialize(IOEnv.VF_OUT, [arrays |-> SetToSeq(Arrays), queries |-> SortedSeq(Queries)])
=============================================================================
