---- MODULE IntegratorMC ----
EXTENDS Integrator
NoDev == {}
D1 == {"retryWithLargerStep"}
D2 == {"acceptWhenRetriesExhausted"}
D3 == {"fixedOverrideAfterNewtonCheck"}
D4 == {"keepCacheOnFailure"}
MCHS == {1, 3, 5}
====
