-------------------------------- MODULE Systems -------------------------------
(* The family of nonlinear systems F: R^n -> R^n and the lattice of solver calls      *)
(* for C15 (nonlinear solvers only claim success at an actual solution).  Whether a     *)
(* system has a root is ground truth of the specification:                              *)
(*   "cubic"     F_i = x_i - r_i + (x_{i+1} - r_{i+1})/8 - (x_{i-1} - r_{i-1})/8          *)
(*               + (x_i - r_i)^3 / 2,  r_i = ((i mod 5) - 2)/4      root: x = r           *)
(*   "double"    F_i = (x_i - r_i)^2                                 root r, singular J    *)
(*   "exp"       F_i = exp(x_i) - 2 + x_{i+1}/10                      has a root           *)
(*   "quadm1"    F_i = x_i^2 - 1                                      roots +-1, J singular at 0 *)
(*   "permuted"  F_1 = x_2^3 + x_2 - 2 + x_1^2/10, F_2 = x_1 - x_2^2   (n = 2) root near (0.954, 0.977); the equations are     *)
(*               listed in permuted order, so the Jacobian's DIAGONAL is exactly zero at the guess (0, 0)                    *)
(*   "noroot"    F_i = x_i^2 + 1                                      no root              *)
(*   "noroot2"   F_1 = SUM x_j^2 + 1, F_i = x_1 - x_i (i > 1)          no root              *)
(* TLC checks the no-root claims on an integer grid (every component of "noroot" is >= 1,   *)
(* the first component of "noroot2" is >= 1) and that the lattice reaches every dispatch     *)
(* path of the front end, and writes the lattice for the actuator.                          *)
EXTENDS Integers, Sequences, FiniteSets, TLC, Json, IOUtils, SequencesExt
Kinds == {"cubic", "double", "exp", "quadm1", "permuted", "noroot", "noroot2"}
HasRoot(k) == k \in {"cubic", "double", "exp", "quadm1", "permuted"}
Ns == {1, 2, 3, 5, 8, 12}
Solvers == {"newtontrustregion", "hybrj", "nonlinear_roots"}
Dtypes == {"float64", "longdouble"}
Jacs == {"user", "none"}
Guesses == {"good", "bad", "singular", "nearSingular", "zeroDiagonal"}     \* nearSingular: next to a singular Jacobian, the first Newton step cannot lower the residual
ShapeVariants == {"vector", "column", "matrix", "matrixFlatResidual"}      \* last: the unknown is a matrix, the residual is returned flat
Cell(k, n, s, d, j, g, sh) == [kind |-> k, n |-> n, solver |-> s, dtype |-> d, jac |-> j, guess |-> g, shape |-> sh, hasRoot |-> HasRoot(k)]
Valid(c) == /\ (c.kind = "noroot2" => c.n >= 2)
            /\ (c.shape \in {"matrix", "matrixFlatResidual"} => c.n % 2 = 0 /\ c.n >= 4)
            /\ (c.guess = "singular" => c.kind \in {"noroot", "double"})
            /\ (c.guess = "nearSingular" => c.kind \in {"noroot", "noroot2", "quadm1"})
            /\ (c.kind = "quadm1" => c.guess \in {"good", "nearSingular"})
            /\ (c.kind = "permuted" <=> c.guess = "zeroDiagonal")
            /\ (c.kind = "permuted" => c.n = 2 /\ c.shape \in {"vector", "column"})
            /\ (c.solver = "hybrj" \/ c.jac = "user" \/ c.n <= 5)          \* finite-difference Jacobians of the large systems only through hybrj
Lattice == {c \in {Cell(k, n, s, d, j, g, sh) : k \in Kinds, n \in Ns, s \in Solvers, d \in Dtypes, j \in Jacs, g \in Guesses, sh \in ShapeVariants} : Valid(c)}
(* dispatch path of the front end: double precision goes to MINPACK, extended precision to the built-in dogleg *)
Path(c) == IF c.solver # "nonlinear_roots" THEN c.solver ELSE IF c.dtype = "float64" THEN "minpack" ELSE "dogleg"
VARIABLES x, y
vars == <<x, y>>
Init == x \in -6..6 /\ y \in -6..6
Next == FALSE /\ UNCHANGED vars
Spec == Init /\ [][Next]_vars
NoRootOnGrid == x * x + 1 >= 1 /\ x * x + y * y + 1 >= 1
EveryPathReached == {Path(c) : c \in Lattice} = {"newtontrustregion", "hybrj", "minpack", "dogleg"}
EveryPathSeesNoRoot == \A p \in {"newtontrustregion", "hybrj", "minpack", "dogleg"} : \E c \in Lattice : Path(c) = p /\ ~c.hasRoot
ASSUME IF "VF_OUT" \in DOMAIN IOEnv THEN JsonSerialize(IOEnv.VF_OUT, [cells |-> SetToSeq(Lattice)]) ELSE TRUE
=============================================================================
