SPECIFICATION Spec
INVARIANT NoPoleOnNegativeAxis
INVARIANT BoundedByOne
INVARIANT StiffDecay
CHECK_DEADLOCK FALSE
