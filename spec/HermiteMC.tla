------------------------------ MODULE HermiteMC -----------------------------
(* TLC checks the Hermite identities on every case of the small scope, and    *)
(* (with VF_OUT set) writes the case list with the exact expected values so   *)
(* that the real CubicHermiteInterp is run on exactly these cases.            *)
EXTENDS Hermite, TLC, Json, IOUtils, SequencesExt, FiniteSets
CONSTANTS CMax, TMax, KMax, KStep

Coefs == (-CMax)..CMax
Cubics == {<<a, b, c, d>> : a \in Coefs, b \in Coefs, c \in Coefs, d \in Coefs}
Intervals == {<<a, b>> \in ((-TMax)..TMax) \X ((-TMax)..TMax) : a # b}
Ks == {k \in (-KMax)..KMax : k % KStep = 0}

VARIABLES c, iv, k
vars == <<c, iv, k>>
Init == c \in Cubics /\ iv \in Intervals /\ k \in Ks
Next == FALSE /\ UNCHANGED vars
Spec == Init /\ [][Next]_vars

HermiteReproducesCubic == ReproducesCubic(c, iv[1], iv[2], k)
HermiteGradIsDerivative == GradIsDerivative(c, iv[1], iv[2], k)
EndValuesAndSlopes ==
    /\ (k = 4 * iv[1] => HermiteD3(c, iv[1], iv[2], k) = P(c, iv[1]) * Dd(iv[1], iv[2]) * Dd(iv[1], iv[2]) * Dd(iv[1], iv[2]))
    /\ (k = 4 * iv[2] => HermiteD3(c, iv[1], iv[2], k) = P(c, iv[2]) * Dd(iv[1], iv[2]) * Dd(iv[1], iv[2]) * Dd(iv[1], iv[2]))

(* generator: one record per (interval, k) with the per-cubic expectations *)
CubicSeq == SetToSeq(Cubics)
CaseFor(i, kk) ==
    [t0 |-> i[1], t1 |-> i[2], k |-> kk,
     p64 |-> [j \in 1..Len(CubicSeq) |-> P64(CubicSeq[j], kk)],
     d16 |-> [j \in 1..Len(CubicSeq) |-> D16(CubicSeq[j], kk)],
     vs |-> [j \in 1..Len(CubicSeq) |-> ValScaleD3(CubicSeq[j], i[1], i[2], kk)],
     gs |-> [j \in 1..Len(CubicSeq) |-> GradScaleD2(CubicSeq[j], i[1], i[2], kk)],
     d |-> Dd(i[1], i[2])]
GenOut == [cubics |-> CubicSeq,
           cases |-> SetToSeq({CaseFor(i, kk) : i \in Intervals, kk \in Ks})]
ASSUME IF "VF_OUT" \in DOMAIN IOEnv THEN JsonSerialize(IOEnv.VF_OUT, GenOut) ELSE TRUE
=============================================================================
