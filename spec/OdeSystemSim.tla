---------------------------- MODULE OdeSystemSim ------------------------------
(* Behaviours of the design model OdeSystem.tla for replay into the real code        *)
(* (spec -> code).  A history variable records, per behaviour, the API-level script     *)
(* (integrate(target, events?, callback?), reset), every internal choice the real run     *)
(* cannot make by itself (the value a callback assigns to dt at each step, the position    *)
(* of an injected fault) and the projected state the model predicts at each API return.     *)
(* TLC -simulate walks random behaviours; when a behaviour has used up its API calls the      *)
(* log is printed as one JSON line.  The history variable is kept out of the main model      *)
(* (it multiplies states without adding behaviour).                                           *)
EXTENDS OdeSystemMC, Json, TLCExt
VARIABLE log
(* which piece answers a dense query (design lookup, OdeSystem!AnswerIdx) at every half tick of the covered range, scalar and array path *)
LookupTable(pcs) == IF DENSE /\ Len(pcs) > 0
                    THEN [lo2 |-> Lo2(pcs), scalar |-> [k \in 1..(Hi2(pcs) - Lo2(pcs) + 1) |-> AnswerIdx(pcs, Lo2(pcs) + k - 1, FALSE)],
                          array |-> [k \in 1..(Hi2(pcs) - Lo2(pcs) + 1) |-> AnswerIdx(pcs, Lo2(pcs) + k - 1, TRUE)]]
                    ELSE [lo2 |-> 0, scalar |-> << >>, array |-> << >>]
Proj == [rows |-> rows', status |-> status', events |-> events', sol |-> sol', dt |-> dt', look |-> LookupTable(sol')]
Entry ==
    CASE last' = "Call" -> <<[k |-> "call", target |-> frames'[1].target, ev |-> frames'[1].evOn, cb |-> frames'[1].cbOn]>>
      [] last' = "CallNoOp" -> <<[k |-> "call", target |-> Cur, ev |-> FALSE, cb |-> FALSE], [k |-> "ret", p |-> Proj]>>
      [] last' = "Post" /\ Top.cbOn ->
            LET adopted == IF Top.final THEN dt ELSE FixDir(Top.newDt, tf, t0)
            IN <<[k |-> "cb", set |-> IF dt' = adopted THEN 0 ELSE Abs(dt'), nrows |-> Len(rows)]>>
      [] last' = "Step" ->      \* what the integrator was asked for and what it returned (the scripted integrator of the adaptive replay plays it back)
            LET d == FixDir(dt, Top.target, Cur) c == ChooseStep(Top, d)
            IN <<[k |-> "step", h |-> c.h, dT |-> Last(rows') - Cur, newDt |-> frames'[Len(frames')].newDt, nrows |-> Len(rows), final |-> c.final]>>
      [] last' = "Fault" -> <<[k |-> "fault", pc |-> Top.pc, depth |-> Len(frames), nrows |-> Len(rows), cb |-> Top.cbOn, atTarget |-> (Cur = Top.target \/ Top.terminated)],
                              [k |-> "ret", p |-> Proj]>>
      [] last' = "Return" /\ frames' = << >> -> <<[k |-> "ret", p |-> Proj]>>
      [] last' = "Reset" -> <<[k |-> "reset"], [k |-> "ret", p |-> Proj]>>
      [] OTHER -> << >>
SimInit == Init /\ log = <<[k |-> "init", t0 |-> t0, tf |-> tf, dt0 |-> dt0, roots |-> ROOTS, dense |-> DENSE]>>      \* the event functions are built from this table
(* one tick of the replay is a quarter of a time unit: the step never underflows there *)
SimNext == Next /\ last' # "Underflow" /\ log' = log \o Entry
(* roots of one event function are 4 ticks apart: a step that grew beyond 2 ticks could hide two crossings of one function *)
SimConstraint == StateConstraint /\ Abs(dt) <= 2
SimConstraintAd == StateConstraint /\ Abs(dt) <= 4
SimSpec == SimInit /\ [][SimNext]_<<vars, log>>
Finished == Idle /\ ncalls = MAXCALLS
EmitLog == Finished => PrintT(<<"VFLOG", ToJson(log)>>)
=============================================================================
