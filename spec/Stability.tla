------------------------------- MODULE Stability ------------------------------
(* Stability functions of the shipped implicit schemes with rational one- and     *)
(* two-stage tables (C11), in exact integer arithmetic:  with A = AA/12, b = BB/12   *)
(* and an integer z,   R(z) = 1 + z b^T (I - zA)^{-1} 1 = (det M + z BB^T adj(M) 1)   *)
(* / det M,  M = 12 I - z AA.   TLC checks on the lattice z = -2^k, k = 0..10, that    *)
(* the denominator never vanishes (no pole) and |R(z)| <= 1 (no growth), and - with    *)
(* $VF_OUT - writes R(z) as num/den for the actuator, which runs one real step of the   *)
(* scheme on y' = lambda y with h*lambda = z.                                          *)
EXTENDS Integers, Sequences, FiniteSets, TLC, Json, IOUtils, SequencesExt
Abs(x) == IF x < 0 THEN -x ELSE x
Tables == [BackwardEuler    |-> [AA |-> <<<<12>>>>, BB |-> <<12>>],
           ImplicitMidpoint |-> [AA |-> <<<<6>>>>, BB |-> <<12>>],
           LobattoIIIA2     |-> [AA |-> <<<<0, 0>>, <<6, 6>>>>, BB |-> <<6, 6>>],
           CrankNicolson    |-> [AA |-> <<<<0, 0>>, <<6, 6>>>>, BB |-> <<6, 6>>],
           LobattoIIIB2     |-> [AA |-> <<<<6, 0>>, <<6, 0>>>>, BB |-> <<6, 6>>],
           LobattoIIIC2     |-> [AA |-> <<<<6, -6>>, <<6, 6>>>>, BB |-> <<6, 6>>],
           RadauIA3         |-> [AA |-> <<<<3, -3>>, <<3, 5>>>>, BB |-> <<3, 9>>],
           RadauIIA3        |-> [AA |-> <<<<5, -1>>, <<9, 3>>>>, BB |-> <<9, 3>>]]
Names == DOMAIN Tables
RECURSIVE Pow2(_)
Pow2(k) == IF k = 0 THEN 1 ELSE 2 * Pow2(k - 1)
Zs == {-Pow2(k) : k \in 0..10}

Den(n, z) == LET T == Tables[n] IN
    IF Len(T.BB) = 1 THEN 12 - z * T.AA[1][1]
    ELSE (12 - z * T.AA[1][1]) * (12 - z * T.AA[2][2]) - (z * T.AA[1][2]) * (z * T.AA[2][1])
Num(n, z) == LET T == Tables[n] IN
    IF Len(T.BB) = 1 THEN Den(n, z) + z * T.BB[1]
    ELSE LET m11 == 12 - z * T.AA[1][1]  m12 == -z * T.AA[1][2]  m21 == -z * T.AA[2][1]  m22 == 12 - z * T.AA[2][2]
             \* adj(M) 1 = <<m22 - m12, m11 - m21>>
         IN  Den(n, z) + z * (T.BB[1] * (m22 - m12) + T.BB[2] * (m11 - m21))

VARIABLES n, z
vars == <<n, z>>
Init == n \in Names /\ z \in Zs
Next == FALSE /\ UNCHANGED vars
Spec == Init /\ [][Next]_vars
NoPoleOnNegativeAxis == Den(n, z) # 0
BoundedByOne == Abs(Num(n, z)) <= Abs(Den(n, z))
(* L-stable members damp the stiff limit: |R(-1024)| < 1/100 *)
StiffDecay == (n \in {"BackwardEuler", "LobattoIIIC2", "RadauIA3", "RadauIIA3"} /\ z = -1024) => 100 * Abs(Num(n, z)) < Abs(Den(n, z))
GenOut == [cells |-> SetToSeq({[name |-> m, z |-> w, num |-> Num(m, w), den |-> Den(m, w)] : m \in Names, w \in Zs}),
           tables |-> [m \in Names |-> Tables[m]]]
ASSUME IF "VF_OUT" \in DOMAIN IOEnv THEN JsonSerialize(IOEnv.VF_OUT, GenOut) ELSE TRUE
=============================================================================
