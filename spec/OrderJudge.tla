------------------------------ MODULE OrderJudge -----------------------------
(* Judge for C01 (every integrator attains its declared order).  One case per      *)
(* (method or Richardson wrapper, dtype, step size): the units by which each         *)
(* component of ONE REAL STEP on the tree system of spec/RootedTrees.tla misses the   *)
(* exact value h^|tau|/gamma(tau) that the tree table supplies.                      *)
(*   ords[k], units[k]   order of tree k and its miss (aligned with the table)        *)
(*   p        declared order of the (base) method, cap = highest order generated      *)
(*   L        number of extrapolation levels (0 = plain method)                       *)
(*   emb      miss of the embedded weights on the order-1 tree (-1 = no embedded row) *)
(*   hit      the step taken is the step requested                                    *)
EXTENDS Integers, Sequences, FiniteSets, TLC, Json, IOUtils, Bounds
In == JsonDeserialize(IOEnv.VF_IN)
Cases == In.cases
Known == <<1, 1, 2, 4, 9, 20, 48, 115, 286, 719, 1842, 4766>>
VARIABLES i, bad
vars == <<i, bad>>
MinOf(S) == CHOOSE x \in S : \A y \in S : x <= y
Min2(a, b) == IF a < b THEN a ELSE b
LowestFailing(o) == LET F == {o.ords[k] : k \in {k \in 1..Len(o.units) : o.units[k] > OrderUnits}} IN IF F = {} THEN 99 ELSE MinOf(F)
Need(o) == IF o.L = 0 THEN Min2(o.p, o.cap) ELSE Min2(o.cap, IF o.L >= 3 THEN o.p + 1 ELSE o.p)
V(o, cl) == [id |-> o.id, clause |-> cl, lowest |-> LowestFailing(o)]
CheckCase(o) ==
    (IF ~o.observed THEN {V(o, "C01.StepObserved")} ELSE
        (IF o.L = 0 /\ LowestFailing(o) <= Need(o) THEN {V(o, "C01.OrderConditionsUpToDeclaredOrder")} ELSE {})
        \cup (IF o.L > 0 /\ LowestFailing(o) <= Min2(o.p, o.cap) THEN {V(o, "C01.RichardsonNeverLowerThanBase")} ELSE {})
        \cup (IF o.L >= 3 /\ LowestFailing(o) > Min2(o.p, o.cap) /\ LowestFailing(o) <= Need(o) THEN {V(o, "C01.RichardsonStrictlyHigherWithThreeLevels")} ELSE {})
        \cup (IF o.L > 0 /\ LowestFailing(o) > Need(o) /\ LowestFailing(o) <= Min2(o.cap, o.p + o.L - 2) THEN {V(o, "C01.RichardsonReachesTableauOrder")} ELSE {})
        \cup (IF o.emb # -1 /\ o.emb > OrderUnits THEN {V(o, "C01.EmbeddedWeightsConsistent")} ELSE {})
        \cup (IF o.hit THEN {} ELSE {V(o, "C01.StepTakenIsStepRequested")}))
    \cup (IF \A k \in 1..o.cap : Cardinality({j \in 1..Len(o.ords) : o.ords[j] = k}) = o.copies * Known[k] THEN {} ELSE {V(o, "C01.AllTreesExercised")})
Init == i = 1 /\ bad = {}
Next == /\ i <= Len(Cases)
        /\ bad' = bad \cup CheckCase(Cases[i])
        /\ i' = i + 1
Spec == Init /\ [][Next]_vars
Emit == (i = Len(Cases) + 1) => JsonSerialize(IOEnv.VF_OUT, [n |-> Len(Cases), bad |-> bad])
=============================================================================
