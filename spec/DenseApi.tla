------------------------------- MODULE DenseApi -------------------------------
(* Design model over DenseModel: every operation sequence up to MAXLEN.  With Dev = {}   *)
(* the invariants hold; each deviation of the code violates the invariant that guards it. *)
(* With $VF_OUT the module writes every sequence up to GENLEN (under the deviations of the   *)
(* code) with the expected outcome of each operation, for replay on the real class.          *)
EXTENDS DenseModel, Json, IOUtils, SequencesExt
CONSTANTS MAXLEN, GENLEN
Ticks == 0..3
Ops == {[op |-> "new"]} \cup {[op |-> "ctor", times |-> t] : t \in {<<0, 1, 2>>, <<0, 2, 3>>, <<3, 2, 0>>, <<1, 3>>}}
       \cup {[op |-> "add", a |-> a, b |-> b] : a \in {0, 3}, b \in Ticks}
       \cup {[op |-> "remove", i |-> i] : i \in {0, -1}}
       \cup {[op |-> k, q |-> q] : k \in {"eval", "evalv"}, q \in Ticks}
       \cup {[op |-> "len"], [op |-> "tmin"], [op |-> "tmax"]}
(* an added piece continues from the last stored time in either direction (integrate() may turn round), never with zero length *)
Sensible(s, o) ==
    IF o.op = "add" THEN (IF s.has /\ Len(s.ts) > 0 THEN o.b # Last(s.ts) ELSE o.b # o.a)
    ELSE TRUE
VARIABLES st, hist, lastOut, lastOp
vars == <<st, hist, lastOut, lastOp>>
Init == st = Empty /\ hist = << >> /\ lastOut = Ok(0) /\ lastOp = [op |-> "new"]
Next == /\ Len(hist) < MAXLEN
        /\ \E o \in Ops : Sensible(st, o) /\
             LET r == DApply(st, o) IN st' = r[1] /\ hist' = Append(hist, o) /\ lastOut' = r[2] /\ lastOp' = o
Spec == Init /\ [][Next]_vars
Covered(s, q) == s.has /\ Len(s.ps) > 0 /\ \E i \in 1..Len(s.ps) : (s.ps[i].a <= q /\ q <= s.ps[i].b) \/ (s.ps[i].b <= q /\ q <= s.ps[i].a)
PieceById(s, id) == CHOOSE p \in {s.ps[i] : i \in 1..Len(s.ps)} : p.id = id
(* a query inside the covered range is answered by a piece that contains it *)
AnsweredByContainingPiece ==
    (lastOp.op \in {"eval", "evalv"} /\ Covered(st, lastOp.q) /\ lastOut.kind = "ok")
        => LET p == PieceById(st, lastOut.val) IN (p.a <= lastOp.q /\ lastOp.q <= p.b) \/ (p.b <= lastOp.q /\ lastOp.q <= p.a)
(* the stored times and the pieces stay paired *)
TimesPairWithPieces == st.has => (Len(st.ts) = Len(st.ps) /\ \A i \in 1..Len(st.ps) : st.ts[i] = st.ps[i].b)
(* the reported bounds are those of the covered range *)
BoundsAreTheCoveredRange ==
    (lastOp.op \in {"tmin", "tmax"} /\ st.has /\ Len(st.ps) > 0)
        => LET ends == {st.ps[i].a : i \in 1..Len(st.ps)} \cup {st.ps[i].b : i \in 1..Len(st.ps)}
           IN lastOut.val = IF lastOp.op = "tmin" THEN CHOOSE x \in ends : \A y \in ends : x <= y ELSE CHOOSE x \in ends : \A y \in ends : x >= y
(* generator *)
RECURSIVE Hists(_, _, _)
Hists(s, h, n) == IF n = 0 THEN {h} ELSE {h} \cup UNION {Hists(DApply(s, o)[1], Append(h, [o |-> o, out |-> DApply(s, o)[2]]), n - 1) : o \in {x \in Ops : Sensible(s, x)}}
GenOut == [histories |-> SetToSeq({h \in Hists(Empty, << >>, GENLEN) : Len(h) >= 1})]
ASSUME IF "VF_OUT" \in DOMAIN IOEnv THEN JsonSerialize(IOEnv.VF_OUT, GenOut) ELSE TRUE
=============================================================================
