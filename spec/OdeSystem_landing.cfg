CONSTANTS
  T0S <- LandT0S
  TFS <- LandTFS
  DTS <- LandDTS
  TARGETS <- LandTARGETS
  ADAPTIVE = FALSE
  ROOTS <- LandRoots
  DENSE = TRUE
  MAXCALLS = 3
  MAXROWS = 10
  FAULTS = TRUE
  CBDTS <- NoCb
  Dev <- NoDev
SPECIFICATION Spec
CONSTRAINT StateConstraint
INVARIANT TypeOK
INVARIANT FirstRowIsInitial
INVARIANT SegmentMonotone
INVARIANT PiecesAreSteps
INVARIANT QueriesAnsweredByContainingStep
INVARIANT ScalarAndArrayQueriesAgree
INVARIANT EventsAreRoots
INVARIANT NoEventTwice
PROPERTY EndsAtTarget
PROPERTY NoOvershootOnCommit
PROPERTY Progress
PROPERTY FixedStepsEqualDt
PROPERTY FixedDtKeptBetweenSteps
PROPERTY TerminalStop
PROPERTY FailureLeavesPrefix
PROPERTY ResetRestores
PROPERTY CallAtTargetChangesNothing
CHECK_DEADLOCK FALSE
