CONSTANTS G = 9  MaxLen = 7
SPECIFICATION Spec
INVARIANT Emit
CHECK_DEADLOCK FALSE
