---------------------------- MODULE IntegratorSim ------------------------------
(* Behaviours of Integrator.tla for replay into a real integrator object (spec -> code). *)
(* The history variable records the calls, the step of every attempt, the verdict the      *)
(* environment gave (played back through the integrator's public adaptation_fn hook), the    *)
(* decision (return / retry / raise) and injected faults.  tlc -simulate prints one JSON       *)
(* line per finished behaviour.                                                                *)
EXTENDS IntegratorMC, Json, TLCExt
VARIABLE log
SimHS == {5, 6, 8}          \* steps stay above one tick for RETRIES = 3: the model's "cannot shrink any further" has no counterpart at 1/16 per tick
Entry ==
    CASE pc' = "calling" -> <<[k |-> "call", h |-> h']>>
      [] pc' = "attempted" -> <<[k |-> "attempt", h |-> h, redo |-> verdict'.redo, n |-> tries']>>
      [] pc' = "retry" -> <<[k |-> "retry", h |-> h']>>
      [] pc' = "returned" -> <<[k |-> "returned", h |-> h, at |-> at']>>
      [] pc' = "raised" /\ pc = "attempted" /\ MustRedo /\ tries > RETRIES -> <<[k |-> "raised", why |-> "tolerances"]>>     \* Decide: retries exhausted
      [] pc' = "raised" -> <<[k |-> "raised", why |-> "fault", during |-> pc, n |-> tries]>>
      [] OTHER -> << >>
SimInit == Init /\ log = << >>
(* no user code runs between an attempt and the decision about it: such a Fault step has no counterpart to inject *)
SimNext == Next /\ ~(pc = "attempted" /\ pc' = "raised" /\ ~(MustRedo /\ tries > RETRIES)) /\ log' = log \o Entry
SimSpec == SimInit /\ [][SimNext]_<<vars, log>>
Finished == calls = 3 /\ pc \in {"returned", "raised"}
EmitLog == Finished => PrintT(<<"VFLOG", ToJson(log)>>)
=============================================================================
