------------------------------- MODULE TimerApi -------------------------------
(* Design model over TimerModel: every operation sequence up to MAXLEN over a clock that    *)
(* advances 0..2 ticks between operations.  With Dev = {} the invariants hold; each           *)
(* deviation of the code violates the invariant that guards it.  With $VF_OUT the module      *)
(* writes every sequence up to GENLEN (under the deviations of the code) with the expected     *)
(* outcome of each operation and the convert_suffix cases, for replay on the real code.        *)
EXTENDS TimerModel, Json, IOUtils, SequencesExt
CONSTANTS MAXLEN, GENLEN
OpNames == {"enter", "start", "end", "restart", "elapsed", "exit"}
News == {[op |-> "new", startNow |-> a, quiet |-> q, now |-> 0] : a \in BOOLEAN, q \in BOOLEAN}
OpsAt(c) == {[op |-> k, now |-> c + d] : k \in OpNames, d \in 0..2}
VARIABLES st, clock, n, lastOut, lastOp, frozen
vars == <<st, clock, n, lastOut, lastOp, frozen>>
Init == st = NoTimer /\ clock = 0 /\ n = 0 /\ lastOut = Ok(0) /\ lastOp = [op |-> "none", now |-> 0] /\ frozen = None
Step(o) == LET r == TApply(st, o) IN
           /\ st' = r[1] /\ lastOut' = r[2] /\ lastOp' = o /\ clock' = o.now /\ n' = n + 1
           /\ frozen' = IF o.op = "end" THEN o.now ELSE IF o.op \in {"restart", "new"} THEN None ELSE frozen
Next == /\ n < MAXLEN
        /\ IF ~st.made THEN \E o \in News : Step(o) ELSE \E o \in OpsAt(clock) : Step(o)
Spec == Init /\ [][Next]_vars
(* a stopped timer reports the span between its start and its end, whatever the clock shows now                        *)
(* (start() after end() without restart_timer() gives a negative span, in the design as in the code: an observation)   *)
StoppedTimerReportsItsSpan == (lastOp.op = "elapsed" /\ st.st # None /\ st.en # None) => lastOut = Ok(st.en - st.st)
(* end() freezes the timer: until it is restarted the end time is the one end() read *)
EndFreezesTheTimer == (frozen # None) => st.en = frozen
(* leaving the block of a timer that has a start time reports a time or nothing, it does not fail *)
StartedTimerReportsOnExit == (lastOp.op = "exit" /\ st.st # None) => lastOut.kind = "ok"
(* elapsed() of a running timer is the clock minus the start *)
RunningTimerFollowsTheClock == (lastOp.op = "elapsed" /\ st.st # None /\ st.en = None) => lastOut = Ok(lastOp.now - st.st)
(* convert_suffix loses nothing and every field is in range *)
ConvCases == (0..260) \cup {7198, 7199, 7200, 7201, 172798, 172799, 172800, 172801, 180122, 180123, 345599, 345600, 1000001}
ConvertSuffixIsPositional == \A v \in ConvCases : LET c == Conv(v) IN Back(c) = v /\ c[2] < 24 /\ c[3] < 60 /\ c[4] < 120
(* generator *)
RECURSIVE Hists(_, _, _, _)
Hists(s, c, h, k) == IF k = 0 THEN {h} ELSE {h} \cup UNION {Hists(TApply(s, o)[1], o.now, Append(h, [o |-> o, out |-> TApply(s, o)[2]]), k - 1)
                                                           : o \in IF s.made THEN OpsAt(c) ELSE News}
GenOut == [histories |-> SetToSeq({h \in Hists(NoTimer, 0, << >>, GENLEN) : Len(h) >= 2}),
           conv |-> SetToSeq({[v |-> v, out |-> Conv(v)] : v \in ConvCases})]
ASSUME IF "VF_OUT" \in DOMAIN IOEnv THEN JsonSerialize(IOEnv.VF_OUT, GenOut) ELSE TRUE
=============================================================================
