SPECIFICATION Spec
INVARIANT JacobianIsDerivative
CHECK_DEADLOCK FALSE
INVARIANT QuinticDerivativeIdentity
