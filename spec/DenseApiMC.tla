------------------------------ MODULE DenseApiMC ------------------------------
EXTENDS DenseApi
NoDev == {}
DevCtor == {"ctorStoresStart"}
DevBounds == {"boundsFromRawCache"}
DevCode == CodeDev
=============================================================================
