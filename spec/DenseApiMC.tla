------------------------------ MODULE DenseApiMC ------------------------------
EXTENDS DenseApi
NoDev == {}
DevCtor == {"ctorStoresStart"}
DevBounds == {"boundsFromRawCache"}
DevTurn == {"bisectAfterTurn"}
DevCode == CodeDev
=============================================================================
