CONSTANTS MAXLEN = 4  GENLEN = 3
SPECIFICATION Spec
INVARIANT SpanNeverDegenerate
INVARIANT StepPointsAlongTheSpan
INVARIANT StepNeverZero
INVARIANT StatusOnlyByRunOrReset
CHECK_DEADLOCK FALSE
PROPERTY FailedOperationChangesNothing
