------------------------------- MODULE OdeSystem ------------------------------
(* Design-level model of desolver.OdeSystem: the integrate loop with the final-  *)
(* step clamp, direction fixing, step halving, continuation calls, event         *)
(* detection with roll-back and the nested landing call on a terminal event,     *)
(* callbacks that assign dt, faults at every evaluation site, reset.            *)
(*                                                                             *)
(* Time is an integer number of ticks; a state vector is identified with the    *)
(* sequence of accepted steps that produced it, so `rows` (the recorded times)   *)
(* is the whole trajectory.  The integrator is the environment: a fixed-step     *)
(* family returns exactly the step it was asked for, an adaptive family may      *)
(* return a shorter one and proposes the next step.  Event functions are given   *)
(* by their roots.  Every deliberate deviation of an implementation from this    *)
(* design is a named member of Dev, so TLC can show that each one breaks the     *)
(* invariant that guards it (see OdeSystem_dev*.cfg).                           *)
EXTENDS Integers, Sequences, FiniteSets, TLC

CONSTANTS
    T0S,          \* candidate start times
    TFS,          \* candidate end times of the system
    DTS,          \* candidate |dt|
    TARGETS,      \* candidate targets of integrate(t) calls
    ADAPTIVE,     \* TRUE: the integrator may shorten a step and proposes the next one
    ROOTS,        \* set of event roots [t |-> tick, ev |-> id, term |-> BOOLEAN]
    DENSE,        \* dense output kept
    MAXCALLS,     \* bound on API calls per history
    MAXROWS,      \* bound on recorded rows
    FAULTS,       \* TRUE: any evaluation site may raise
    CBDTS,        \* step sizes a callback may assign ({} = no callback)
    Dev           \* set of named deviations from the design

DevNames == {"absFinalClamp", "dirFromSystemSpan", "keepRolledBackPiece", "frontInsert", "dedupByPosition",
             "noTrimOnFailure", "resetKeepsEvents", "commitBeforeAccept", "clampAdoptsDt", "recordStepTooShort", "perCallSuppression",
             "bisectAfterTurn", "landingStepCarriedOver"}
ASSUME Dev \subseteq DevNames

Abs(x) == IF x < 0 THEN -x ELSE x
Sgn(x) == IF x > 0 THEN 1 ELSE IF x < 0 THEN -1 ELSE 0
Last(s) == s[Len(s)]
Front(s) == SubSeq(s, 1, Len(s) - 1)
Beyond(dir, a, b) == IF dir > 0 THEN b > a ELSE b < a
Between(a, x, b) == (a <= x /\ x <= b) \/ (b <= x /\ x <= a)

VARIABLES
    rows,      \* recorded times
    t0, tf,    \* settings
    dt, dt0,   \* signed step, initial |dt|
    status,    \* "notrun" | "done" | "event" | "failed"
    sol,       \* dense output: sequence of pieces [a, b]
    events,    \* recorded events: sequence of [t, ev]
    frames,    \* stack of active integrate calls
    ncalls,    \* API calls made
    last       \* label of the last action (for action properties / coverage)
vars == <<rows, t0, tf, dt, dt0, status, sol, events, frames, ncalls, last>>

Cur == Last(rows)
Idle == Len(frames) = 0
Top == Last(frames)
FixDir(d, target, t) == IF Sgn(d) # Sgn(target - t) THEN -d ELSE d

Init ==
    /\ t0 \in T0S /\ tf \in TFS /\ t0 # tf
    /\ dt0 \in DTS
    /\ dt = FixDir(dt0, tf, t0)
    /\ rows = <<t0>>
    /\ status = "notrun" /\ sol = << >> /\ events = << >> /\ frames = << >> /\ ncalls = 0 /\ last = "Init"

(***************************************************************************)
(* integrate(target, events on/off, callbacks on/off)                       *)
(***************************************************************************)
Frame(target, evOn, cbOn, nested) ==
    [target |-> target, dir |-> Sgn(target - Cur), pc |-> "loop", evOn |-> evOn, cbOn |-> cbOn, nested |-> nested,
     a |-> Cur, b |-> Cur, final |-> FALSE, newDt |-> dt, terminated |-> FALSE, start |-> Len(rows), dtAtCall |-> 0, dtSaved |-> 0,
     ev0 |-> Len(events)]      \* ev0: events recorded before this call (duplicate suppression is per call, as in the code)

Call(target, evOn, cbOn) ==
    /\ Idle /\ ncalls < MAXCALLS
    /\ ncalls' = ncalls + 1
    /\ IF target = Cur
       THEN UNCHANGED <<rows, dt, status, sol, events, frames>> /\ last' = "CallNoOp"
       ELSE LET d1 == FixDir(dt, target, Cur)
                d2 == IF Abs(d1) > Abs(target - Cur) THEN (target - Cur) \div 2 ELSE d1
            IN  /\ (Abs(d1) > Abs(target - Cur) => (target - Cur) % 2 = 0)      \* halving stays on the tick grid
                /\ d2 # 0
                /\ dt' = d2
                /\ frames' = <<[Frame(target, evOn, cbOn, FALSE) EXCEPT !.dtAtCall = d2]>>
                /\ UNCHANGED <<rows, status, sol, events>> /\ last' = "Call"
    /\ UNCHANGED <<t0, tf, dt0>>

(***************************************************************************)
(* one step of the loop: choose the step, call the integrator, commit       *)
(***************************************************************************)
ChooseStep(f, d) ==
    LET rem == f.target - Cur
        over == IF "absFinalClamp" \in Dev THEN Abs(d + Cur) > Abs(f.target) ELSE Abs(d) > Abs(rem)
    IN  IF over THEN [h |-> rem, final |-> TRUE] ELSE [h |-> d, final |-> FALSE]

(* what an integrator may return for a requested step h *)
Outcomes(h) ==
    IF ADAPTIVE
    THEN {[dT |-> x, newDt |-> y] : x \in {h} \cup (IF h % 2 = 0 THEN {h \div 2} ELSE {}),
                                   y \in {h, 2 * h} \cup (IF h % 2 = 0 THEN {h \div 2} ELSE {})}
    ELSE {[dT |-> h, newDt |-> h]}

Step ==
    /\ ~Idle /\ Top.pc = "loop" /\ Cur # Top.target /\ ~Top.terminated
    /\ Len(rows) < MAXROWS
    /\ LET f == Top
           d == IF "dirFromSystemSpan" \in Dev THEN FixDir(dt, tf, t0) ELSE FixDir(dt, f.target, Cur)
           c == ChooseStep(f, d)
       IN \E o \in Outcomes(c.h) :
            /\ rows' = Append(rows, Cur + o.dT)
            /\ sol' = IF DENSE \/ f.evOn
                      THEN (IF "frontInsert" \in Dev /\ Len(sol) > 0 /\ Cur + o.dT < Last(sol).b
                            THEN <<[a |-> Cur, b |-> Cur + o.dT]>> \o sol
                            ELSE Append(sol, [a |-> Cur, b |-> Cur + o.dT]))
                      ELSE sol
            /\ frames' = [frames EXCEPT ![Len(frames)] =
                             [f EXCEPT !.a = Cur, !.b = Cur + o.dT, !.final = c.final, !.newDt = o.newDt,
                                       !.pc = IF f.evOn THEN "events" ELSE "post"]]
            /\ dt' = d
    /\ UNCHANGED <<t0, tf, dt0, status, events, ncalls>> /\ last' = "Step"

(***************************************************************************)
(* the controller has shrunk the step below the resolution of the time axis *)
(* (one tick here, one rounding unit of t in the code): t + dT = t.  The run *)
(* fails (step size underflow); recording the step would never end.          *)
(***************************************************************************)
Underflow ==
    /\ ADAPTIVE /\ ~Idle /\ Top.pc = "loop" /\ Cur # Top.target /\ ~Top.terminated
    /\ LET f == Top
           d == FixDir(dt, f.target, Cur)
           c == ChooseStep(f, d)
       IN /\ Abs(c.h) = 1
          /\ IF "recordStepTooShort" \in Dev
             THEN /\ Len(rows) < MAXROWS
                  /\ rows' = Append(rows, Cur)
                  /\ sol' = IF DENSE \/ f.evOn THEN Append(sol, [a |-> Cur, b |-> Cur]) ELSE sol
                  /\ frames' = [frames EXCEPT ![Len(frames)] = [f EXCEPT !.a = Cur, !.b = Cur, !.final = c.final, !.newDt = d, !.pc = "post"]]
                  /\ dt' = d /\ status' = status /\ last' = "Step"
             ELSE /\ frames' = << >> /\ status' = "failed"
                  /\ UNCHANGED <<rows, sol, dt>> /\ last' = "Underflow"
    /\ UNCHANGED <<t0, tf, dt0, events, ncalls>>

(***************************************************************************)
(* event handling for the step [a, b] just committed                        *)
(***************************************************************************)
RootsIn(a, b) == {r \in ROOTS : Between(a, r.t, b)}
(* the code suppresses a root only against what the CURRENT call has recorded (a continuation call that is handed the same event  *)
(* function again records a root sitting on its first step's start once more - found by replaying model behaviours into the code)   *)
(* This is a deviation the real code HAS ("perCallSuppression", in DevCode): replay and trace validation use it, the design        *)
(* configurations do not, and OdeSystem_devPerCallSuppression.cfg shows that it violates NoEventTwice.                               *)
Recorded(r) == \E k \in ((IF "perCallSuppression" \in Dev THEN frames[1].ev0 ELSE 0) + 1)..Len(events) : events[k].t = r.t /\ events[k].ev = r.ev
(* along the direction of the step; ties between different events broken by ev id *)
Before(dir, r1, r2) == Beyond(dir, r1.t, r2.t) \/ (r1.t = r2.t /\ r1.ev < r2.ev)
RECURSIVE SortRoots(_, _)
SortRoots(S, dir) ==
    IF S = {} THEN << >>
    ELSE LET first == CHOOSE r \in S : \A q \in S \ {r} : Before(dir, r, q)
         IN  <<first>> \o SortRoots(S \ {first}, dir)
TruncAtTerminal(s) ==
    LET terms == {k \in 1..Len(s) : s[k].term}
    IN  IF terms = {} THEN s ELSE SubSeq(s, 1, CHOOSE k \in terms : \A j \in terms : k <= j)

(* the piece of the step under examination is the one added last (first under "frontInsert") *)
DropPiece(s, a, b) ==
    IF Len(s) > 0 /\ Last(s) = [a |-> a, b |-> b] THEN Front(s)
    ELSE IF Len(s) > 0 /\ s[1] = [a |-> a, b |-> b] THEN Tail(s) ELSE s

HandleEvents ==
    /\ ~Idle /\ Top.pc = "events"
    /\ LET f == Top
           dir == Sgn(f.b - f.a)
           cands == {r \in RootsIn(f.a, f.b) : ("dedupByPosition" \in Dev) \/ ~Recorded(r)}
           found == TruncAtTerminal(SortRoots(cands, dir))
           recs == [k \in 1..Len(found) |-> [t |-> found[k].t, ev |-> found[k].ev]]
           term == Len(found) > 0 /\ Last(found).term
       IN  /\ events' = events \o recs
           /\ IF term
              THEN \* roll the step back and land on the event with a nested call (a no-op when the root is the step start)
                   /\ rows' = Front(rows)
                   /\ sol' = IF "keepRolledBackPiece" \in Dev THEN sol
                             ELSE DropPiece(sol, f.a, f.b)
                   /\ LET root == Last(found).t
                          d1 == FixDir(dt, root, f.a)
                          d2 == IF Abs(d1) > Abs(root - f.a) THEN (root - f.a) \div 2 ELSE d1
                      IN  IF root = f.a
                          THEN /\ frames' = [frames EXCEPT ![Len(frames)] = [f EXCEPT !.terminated = TRUE, !.pc = "post"]]
                               /\ dt' = dt
                          ELSE /\ (Abs(d1) > Abs(root - f.a) => (root - f.a) % 2 = 0)
                               /\ d2 # 0
                               /\ dt' = d2
                               \* the step in force is remembered: the short steps of the landing call are not carried over
                               /\ frames' = [frames EXCEPT ![Len(frames)] = [f EXCEPT !.terminated = TRUE, !.pc = "post", !.dtSaved = dt]]
                                       \o <<[target |-> root, dir |-> Sgn(root - f.a), pc |-> "loop", evOn |-> FALSE,
                                             cbOn |-> FALSE, nested |-> TRUE, a |-> f.a, b |-> f.a, final |-> FALSE,
                                             newDt |-> d2, terminated |-> FALSE, start |-> Len(rows) - 1, dtAtCall |-> d2, dtSaved |-> 0, ev0 |-> Len(events')]>>
              ELSE /\ frames' = [frames EXCEPT ![Len(frames)] = [f EXCEPT !.pc = "post"]]
                   /\ UNCHANGED <<rows, sol, dt>>
    /\ UNCHANGED <<t0, tf, dt0, status, ncalls>> /\ last' = "HandleEvents"

(***************************************************************************)
(* after the step: adopt the proposed step, run callbacks                    *)
(***************************************************************************)
(* the proposed step is stored through the dt setter, which points it along the system's span t0 -> tf (the loop re-orients it  *)
(* before every step); a clamped last step stores nothing                                                                      *)
Adopted(f) == IF f.final /\ "clampAdoptsDt" \notin Dev THEN dt ELSE FixDir(f.newDt, tf, t0)
Post ==
    /\ ~Idle /\ Top.pc = "post"
    /\ LET f == Top
       IN  /\ \E c \in (IF f.cbOn THEN CBDTS \cup {0} ELSE {0}) :
                 dt' = IF c = 0 THEN Adopted(f) ELSE FixDir(c, tf, t0)      \* the dt setter fixes the sign against the system span
           /\ frames' = [frames EXCEPT ![Len(frames)] = [f EXCEPT !.pc = "loop"]]
    /\ UNCHANGED <<rows, t0, tf, dt0, status, sol, events, ncalls>> /\ last' = "Post"

(***************************************************************************)
(* leaving the loop                                                          *)
(***************************************************************************)
Return ==
    /\ ~Idle /\ Top.pc = "loop" /\ (Cur = Top.target \/ Top.terminated)
    /\ LET f == Top IN
        IF f.nested
        THEN /\ frames' = Front(frames)
             /\ status' = "event"
             \* back in the call that found the event: the step in force is what it was before the landing call (stored through the dt
             \* setter).  Deviation "landingStepCarriedOver": the code before repair 35 kept the landing call's short step, which a
             \* clamped last step then never replaced.
             /\ dt' = IF "landingStepCarriedOver" \in Dev THEN dt ELSE FixDir(frames[Len(frames) - 1].dtSaved, tf, t0)
        ELSE /\ frames' = << >>
             \* "done" is only written over "notrun"/"done": an earlier stop at an event or an earlier failure stays reported
             /\ status' = IF f.terminated THEN "event" ELSE IF status \in {"event", "failed"} THEN status ELSE "done"
             /\ dt' = dt
    /\ UNCHANGED <<rows, t0, tf, dt0, sol, events, ncalls>> /\ last' = "Return"

(***************************************************************************)
(* a user callable raises: every loop position is a crash point             *)
(***************************************************************************)
Fault ==
    /\ FAULTS /\ ~Idle
    \* user code runs (and can raise) in three places: the right-hand side during a step, the event functions while a step is
    \* examined, the callbacks after a step
    /\ \/ Top.pc = "loop" /\ Cur # Top.target /\ ~Top.terminated
       \/ Top.pc = "events"
       \/ Top.pc = "post" /\ Top.cbOn
    /\ frames' = << >>
    /\ status' = "failed"
    \* whatever raises, the rows recorded so far stay: an event function that raises leaves the accepted step and its piece in place.
    \* The step has been pointed at the target before the right-hand side runs; a callback runs after the proposed step was stored.
    /\ dt' = CASE Top.pc = "post" -> Adopted(Top)
               [] Top.pc = "loop" -> FixDir(dt, Top.target, Cur)
               [] OTHER -> dt
    /\ UNCHANGED <<rows, sol, t0, tf, dt0, events, ncalls>> /\ last' = "Fault"

Reset ==
    /\ Idle /\ ncalls < MAXCALLS /\ ncalls' = ncalls + 1
    /\ rows' = <<t0>> /\ sol' = << >> /\ status' = "notrun"
    /\ events' = IF "resetKeepsEvents" \in Dev THEN events ELSE << >>
    /\ dt' = FixDir(dt0, tf, t0)
    /\ UNCHANGED <<t0, tf, dt0, frames>> /\ last' = "Reset"

Next ==
    \/ \E tg \in TARGETS \cup {tf}, evOn \in BOOLEAN, cbOn \in BOOLEAN :
            (evOn => ROOTS # {}) /\ (cbOn => CBDTS # {}) /\ Call(tg, evOn, cbOn)
    \/ Step \/ Underflow \/ HandleEvents \/ Post \/ Return \/ Fault \/ Reset

Spec == Init /\ [][Next]_vars

(***************************************************************************)
(* Properties                                                                *)
(***************************************************************************)
TypeOK == /\ Len(rows) >= 1 /\ rows[1] = t0 /\ dt # 0
          /\ status \in {"notrun", "done", "event", "failed"}

(* Indefinite integration: a target beyond every tick a bounded behaviour can reach (Infinity / -Infinity below) is never attained - the *)
(* prologue and the last-step clamp never fire for it - so a call towards it returns only because a terminal event stopped it.        *)
Infinity == 999
IsIndefinite(t) == t = Infinity \/ t = -Infinity
IndefiniteRunStopsOnlyAtATerminalEvent ==
    [][(last' = "Return" /\ ~Top.nested /\ IsIndefinite(Top.target)) => (Top.terminated /\ status' = "event")]_vars

(* C03 *)
FirstRowIsInitial == rows[1] = t0
SegmentMonotone ==      \* rows recorded by the active call move strictly toward its target and never beyond it
    \A k \in 1..Len(frames) :
        LET f == frames[k] IN
        \A i \in f.start..(Len(rows) - 1) :
            /\ Beyond(f.dir, rows[i], rows[i + 1])
            /\ (k = Len(frames) \/ i + 1 <= frames[k + 1].start) => ~Beyond(f.dir, f.target, rows[i + 1])
EndsAtTarget == [][(last' = "Return" /\ ~Top.terminated) => (Cur = Top.target)]_vars
NoOvershootOnCommit == [][last' = "Step" => ~Beyond(Top.dir, Top.target, Last(rows'))]_vars
Progress == [][last' = "Step" => Abs(Top.target - Last(rows')) < Abs(Top.target - Cur)]_vars

(* C04: fixed-step family, no callback intervention *)
FixedStepsEqualDt ==
    [][(last' = "Step" /\ ~ADAPTIVE /\ ~Top.cbOn)
        => LET step == Last(rows') - Cur IN
           /\ Abs(step) <= Abs(Top.dtAtCall)
           /\ (Abs(step) < Abs(Top.dtAtCall) => Last(rows') = Top.target)]_vars

(* C04: with a fixed-step family and no callback the step size in force never changes between steps of a call
   (only the prologue of a call may halve it when it exceeds the span) *)
FixedDtKeptBetweenSteps == [][(last' = "Post" /\ ~ADAPTIVE /\ ~Top.cbOn /\ ~Top.nested) => Abs(dt') = Abs(Top.dtAtCall)]_vars

(* C06 / C09 / C12: dense output is exactly the recorded steps, in order *)
PiecesAreSteps ==
    (DENSE /\ (Idle \/ Top.pc = "loop"))
        => /\ Len(sol) = Len(rows) - 1
           /\ \A i \in 1..Len(sol) : sol[i] = [a |-> rows[i], b |-> rows[i + 1]]

(* C06: a dense query is answered by a step that contains it.  The lookup is the container's (DenseModel.tla: the transcribed       *)
(* bisections of the scalar and the array path, and - once calls have run in both directions, so that the end times are no longer      *)
(* ordered - the most recent piece containing the query); queries are in half ticks so that the middle of a step is one.  Deviation     *)
(* "bisectAfterTurn" is the lookup before repair 654424a.                                                                               *)
DM == INSTANCE DenseModel WITH Dev <- (Dev \cap {"bisectAfterTurn"})
AsContainer(pcs) == [has |-> Len(pcs) > 0, ts |-> [i \in 1..Len(pcs) |-> 2 * pcs[i].b],
                     ps |-> [i \in 1..Len(pcs) |-> [a |-> 2 * pcs[i].a, b |-> 2 * pcs[i].b, id |-> i]],
                     start |-> IF Len(pcs) > 0 THEN 2 * pcs[1].a ELSE 0, cache |-> << >>, cacheNone |-> TRUE, stale |-> TRUE, nid |-> Len(pcs) + 1]
AnswerIdx(pcs, q2, vec) == DM!Lookup(AsContainer(pcs), q2, vec)[2].val
Lo2(pcs) == 2 * DM!SeqMin([i \in 1..(2 * Len(pcs)) |-> IF i <= Len(pcs) THEN pcs[i].a ELSE pcs[i - Len(pcs)].b])
Hi2(pcs) == 2 * DM!SeqMax([i \in 1..(2 * Len(pcs)) |-> IF i <= Len(pcs) THEN pcs[i].a ELSE pcs[i - Len(pcs)].b])
QueriesAnsweredByContainingStep ==
    (DENSE /\ Idle /\ Len(sol) > 0)
        => \A q2 \in Lo2(sol)..Hi2(sol) : \A vec \in BOOLEAN :
              LET p == sol[AnswerIdx(sol, q2, vec)] IN Between(2 * p.a, q2, 2 * p.b)
ScalarAndArrayQueriesAgree ==
    (DENSE /\ Idle /\ Len(sol) > 0) => \A q2 \in Lo2(sol)..Hi2(sol) : AnswerIdx(sol, q2, TRUE) = AnswerIdx(sol, q2, FALSE)

(* C07 *)
EventsAreRoots == \A k \in 1..Len(events) : \E r \in ROOTS : r.t = events[k].t /\ r.ev = events[k].ev
NoEventTwice == \A i, j \in 1..Len(events) : (events[i].t = events[j].t /\ events[i].ev = events[j].ev) => i = j
(* C08: every root strictly inside a recorded step of an events-on call is recorded (checked when idle) *)
(* C09 *)
TerminalStop ==
    [][(last' = "Return" /\ frames' = << >> /\ Top.terminated /\ status' = "event")
        => /\ Len(events) > 0
           /\ Cur = Last(events).t
           /\ \E r \in ROOTS : r.t = Last(events).t /\ r.ev = Last(events).ev /\ r.term]_vars
(* C12 *)
FailureLeavesPrefix ==
    [][last' \in {"Fault", "Underflow"} => /\ Len(rows') >= 1 /\ rows'[1] = t0
                          /\ (DENSE => (Len(sol') = Len(rows') - 1))
                          /\ status' = "failed"]_vars

(* C13 *)
ResetRestores ==
    [][last' = "Reset" => /\ rows' = <<t0>> /\ sol' = << >> /\ events' = << >> /\ status' = "notrun"
                          /\ Abs(dt') = Abs(dt0) /\ Sgn(dt') = Sgn(tf - t0)]_vars
CallAtTargetChangesNothing == [][last' = "CallNoOp" => UNCHANGED <<rows, dt, status, sol, events>>]_vars

StateConstraint == Len(rows) <= MAXROWS /\ Len(events) <= 6
=============================================================================
