------------------------------- MODULE OdeTrace ------------------------------
(* Trace monitor for desolver.OdeSystem (mode T of DESIGN.md).                 *)
(*                                                                             *)
(* Input ($VF_IN): [traces |-> <<trace>>], a trace being                       *)
(*   [id, family, dense, t0, events |-> <<event>>]                             *)
(* produced by lib/vf/scen.py from one execution of the real code.  All time-   *)
(* like values are ranks in the sorted set of the exact rationals that occur    *)
(* in the trace (0 has rank 0, so signs survive); `..m` fields are the ranks of *)
(* magnitudes; arrays are interned by byte pattern (equal id <=> equal bytes).  *)
(*                                                                             *)
(* The monitor keeps the abstract state of OdeSystem.tla that the properties    *)
(* talk about (committed rows, the stack of active integrate calls, the        *)
(* integrator call in flight, the accepted-but-uncommitted step, the rolled     *)
(* back row, dense-output pieces, recorded events, callback bookkeeping) and    *)
(* for every event (1) evaluates the named clauses of the action's contract on  *)
(* the logged environment choices and (2) advances the state.  Every clause is  *)
(* named "<property>.<Clause>"; a trace's verdict is the set of violated        *)
(* clauses with the index of the event at which each was first violated.        *)
(* One TLC state per consumed event, so validation is linear in trace length.   *)
EXTENDS Integers, Sequences, FiniteSets, TLC, Json, IOUtils, Bounds

In == JsonDeserialize(IOEnv.VF_IN)
Traces == In.traces

None == [none |-> TRUE]
IsNone(x) == "none" \in DOMAIN x
Some(x) == ~IsNone(x)

Last(s) == s[Len(s)]
Front(s) == SubSeq(s, 1, Len(s) - 1)
Top(m) == Last(m.frames)
HasFrame(m) == Len(m.frames) > 0

Beyond(dir, a, b) == IF dir > 0 THEN b > a ELSE b < a      \* b lies strictly beyond a along dir
Between(a, x, b) == (a <= x /\ x <= b) \/ (b <= x /\ x <= a)
SeqRange(s) == {s[k] : k \in 1..Len(s)}

FixedFam(f) == f \in {"fixed", "split"}
ImplicitFam(f) == f \in {"fixedimp", "adaptimp"}
AdaptiveFam(f) == f \in {"adaptive", "adaptimp"}

InitM == [rows |-> << >>, frames |-> << >>, call |-> None, ret |-> None, rolled |-> None,
          pieces |-> << >>, evseen |-> {}, window |-> None,
          cbDue |-> FALSE, cbSeen |-> << >>, cbIn |-> -1, cbDtm |-> -1, cbDtPending |-> FALSE,
          nfevBase |-> 0, inReset |-> FALSE, y0 |-> 0, dtm0 |-> -1, lastExc |-> "none",
          opTerminated |-> FALSE, dtmPrev |-> -1, opEv |-> << >>, opDir |-> 0, fam |-> "unknown", opNoop |-> FALSE, opPiece0 |-> 0]

(***************************************************************************)
(* Clauses evaluated on every event that carries a snapshot                 *)
(***************************************************************************)
Always(m, e) ==
    IF "s" \in DOMAIN e THEN
        (IF m.inReset \/ e.s.nfev = e.s.rhsDone - m.nfevBase THEN {} ELSE {"C20.NfevCountsCompletedCalls"})
        \cup (IF e.s.njev = e.s.jacReq THEN {} ELSE {"C20.NjevCountsJacobianRequests"})
        \cup (IF e.s.counter < e.s.buf THEN {} ELSE {"C03.BufferNeverOverrun"})
        \cup (IF Len(m.rows) = 0 \/ m.inReset \/ e.e \in {"Counter"} \/ e.s.counter + 1 = Len(m.rows) THEN {} ELSE {"C03.CounterTracksRows"})
    ELSE {}

(***************************************************************************)
(* Per-event clauses (Chk) and state update (Upd)                            *)
(***************************************************************************)
ChkNew(m, e, tr) == IF e.s.counter = 0 /\ e.s.tc = tr.t0 THEN {} ELSE {"C03.FirstRowIsInitial"}
UpdNew(m, e, tr) == [m EXCEPT !.rows = <<[t |-> e.s.tc, y |-> e.s.yc]>>, !.y0 = e.s.yc, !.dtm0 = e.s.dtm, !.fam = tr.family]

UpdIntegrateCall(m, e, tr) ==
    [m EXCEPT !.frames = Append(@, [target |-> e.target, finite |-> e.finite, dir |-> e.dir, depth |-> e.depth,
                                    c0 |-> e.s.counter, nfev0 |-> e.s.nfev, ncb |-> e.ncb, nevents |-> e.nevents,
                                    atTarget |-> e.atTarget, steps |-> 0, calls |-> 0, dtmCall |-> -1, terminated |-> FALSE, term |-> e.term,
                                    lastHm |-> -1, lastFull |-> FALSE, lastDtm |-> -1, cbAssigned |-> FALSE]),
              !.opDir = IF e.depth = 1 THEN e.dir ELSE @,
              !.opPiece0 = IF e.depth = 1 THEN Len(m.pieces) ELSE @,   \* dense pieces stored when the call was made
              !.opNoop = IF e.depth = 1 THEN e.atTarget ELSE @,     \* a call made at its target changes nothing (C13): not even the status
              !.cbDue = IF e.depth = 1 THEN FALSE ELSE @,
              !.cbSeen = IF e.depth = 1 THEN << >> ELSE @,
              !.lastExc = "none"]

ChkIntegCall(m, e, tr) ==
    LET f == Top(m) IN
    (IF e.t = Last(m.rows).t /\ e.y = Last(m.rows).y THEN {} ELSE {"C03.StepStartsFromLastRow", "C13.StepStartsFromLastRow"})
    \cup (IF e.h = e.s.dt \/ (e.finite /\ e.h = e.rem) THEN {} ELSE {"C04.StepIsDtOrRemaining"})
    \cup (IF e.hm <= e.s.dtm THEN {} ELSE {"C04.NoStepLongerThanDt"})
    \cup (IF (e.h # e.s.dt => e.clamp # "notNeeded") THEN {} ELSE {"C04.ClampOnlyWhenNeeded"})
    \cup (IF (e.h = e.s.dt /\ e.finite => e.clamp # "needed") THEN {} ELSE {"C03.ClampWhenOvershooting", "C04.ClampWhenOvershooting"})
    \cup (IF (f.dir > 0 /\ e.h > 0) \/ (f.dir < 0 /\ e.h < 0) THEN {} ELSE {"C03.StepPointsAtTarget"})
    \cup (IF Some(m.ret) THEN {"C05.AcceptedStepDropped"} ELSE {})
    \cup (IF f.depth = 1 /\ m.cbDue /\ m.cbSeen # [k \in 1..f.ncb |-> k - 1] THEN {"C20.CallbacksOncePerStepInOrder"} ELSE {})
    \cup (IF f.depth = 1 /\ m.cbDtPending /\ ~(e.hm = m.cbDtm \/ (e.finite /\ e.h = e.rem)) THEN {"C20.CallbackDtAdopted"} ELSE {})
UpdIntegCall(m, e, tr) ==
    [m EXCEPT !.call = [t |-> e.t, h |-> e.h, hm |-> e.hm, y |-> e.y, attempts |-> << >>, lastDT |-> 0, lastDTm |-> 0,
                        redo |-> "na", newton |-> "na", newtonFailed |-> FALSE, nret |-> 0],
              !.frames = [@ EXCEPT ![Len(@)].calls = @ + 1, ![Len(@)].dtmCall = IF Top(m).calls = 0 THEN e.s.dtm ELSE @,
                                   ![Len(@)].lastHm = e.hm, ![Len(@)].lastFull = (e.h = e.s.dt), ![Len(@)].lastDtm = e.s.dtm],
              !.cbDue = IF Top(m).depth = 1 THEN FALSE ELSE @,
              !.cbSeen = IF Top(m).depth = 1 THEN << >> ELSE @,
              !.cbDtPending = IF Top(m).depth = 1 THEN FALSE ELSE @]

ChkAttempt(m, e, tr) ==
    IF IsNone(m.call) THEN {} ELSE
    LET a == m.call.attempts IN
    IF Len(a) = 0
    THEN (IF m.fam = "rich" \/ e.h = m.call.h THEN {} ELSE {"C04.FirstAttemptIsRequestedStep", "C05.FirstAttemptIsRequestedStep"})
    ELSE (IF e.hm < Last(a).hm /\ ((e.h > 0) = (Last(a).h > 0)) THEN {} ELSE {"C05.RetryShrinks"})
         \cup (IF m.fam \in {"fixed", "split"} THEN {"C04.FixedStepNeverRetried"} ELSE {})
         \cup (IF m.fam = "fixedimp" /\ ~m.call.newtonFailed THEN {"C04.ImplicitShortensOnlyOnFailure"} ELSE {})
UpdAttempt(m, e, tr) ==
    IF IsNone(m.call) THEN m ELSE [m EXCEPT !.call.attempts = Append(@, [h |-> e.h, hm |-> e.hm])]

ChkAttemptRet(m, e, tr) ==
    IF IsNone(m.call) THEN {} ELSE
    (IF m.fam \in {"fixed", "split", "adaptive"} /\ e.dT # e.h THEN {"C04.AttemptTakesTheStepItWasGiven", "C02.AttemptTakesTheStepItWasGiven"} ELSE {})
UpdAttemptRet(m, e, tr) ==
    IF IsNone(m.call) THEN m ELSE
    [m EXCEPT !.call.lastDT = e.dT, !.call.lastDTm = e.dTm, !.call.newton = e.newton, !.call.redo = "na",
              !.call.newtonFailed = @ \/ (e.newton = "fail"), !.call.nret = @ + 1]

UpdController(m, e, tr) ==
    IF IsNone(m.call) THEN m ELSE [m EXCEPT !.call.redo = IF e.redo THEN "redo" ELSE "accept"]

ChkIntegRet(m, e, tr) ==
    IF IsNone(m.call) THEN {"C05.ReturnWithoutCall"} ELSE
    LET c == m.call IN
    (IF m.fam = "rich" \/ c.nret = 0 \/ e.dT = c.lastDT THEN {} ELSE {"C05.ReturnsLastAttempt", "C02.ReturnsLastAttempt"})
    \cup (IF AdaptiveFam(m.fam) /\ c.redo = "redo" THEN {"C05.RejectedAttemptNeverReturned"} ELSE {})
    \cup (IF ImplicitFam(m.fam) /\ c.newton = "fail" THEN {"C02.UnconvergedStepNeverAccepted", "C05.UnconvergedStepNeverAccepted"} ELSE {})
    \cup (IF e.dTm <= c.hm THEN {} ELSE {"C03.ReturnedStepNotLongerThanRequested", "C04.ReturnedStepNotLongerThanRequested"})
    \cup (IF (e.dT > 0) = (c.h > 0) /\ e.dT # 0 THEN {} ELSE {"C03.ReturnedStepKeepsDirection"})
    \cup (IF FixedFam(m.fam) /\ ~(e.dT = c.h /\ e.newDt = c.h) THEN {"C04.FixedStepUnchanged"} ELSE {})
    \cup (IF m.fam = "fixedimp" /\ ~(e.newDt = c.h) THEN {"C04.FixedStepUnchanged"} ELSE {})
    \cup (IF m.fam = "fixedimp" /\ e.dT # c.h /\ ~c.newtonFailed THEN {"C04.ImplicitShortensOnlyOnFailure"} ELSE {})
    \cup (IF e.newDt # 0 /\ ((e.newDt > 0) = (c.h > 0)) THEN {} ELSE {"C05.NextStepKeepsDirection"})
UpdIntegRet(m, e, tr) ==
    [m EXCEPT !.ret = [dT |-> e.dT, newDt |-> e.newDt, tEnd |-> e.tEnd, yEnd |-> e.yEnd], !.call = None]

UpdIntegRaise(m, e, tr) == [m EXCEPT !.call = None, !.lastExc = e.exc]

(* Counter assignments: commit, roll-back, restore, reset *)
IsCommit(m, e) == e.new = e.old + 1 /\ Some(m.ret)
IsRestore(m, e) == e.new = e.old + 1 /\ IsNone(m.ret) /\ Some(m.rolled)
IsRollback(m, e) == e.new = e.old - 1 /\ ~m.inReset
ChkCounter(m, e, tr) ==
    IF m.inReset THEN (IF e.new = 0 THEN {} ELSE {"C13.ResetRewindsToFirstRow"})
    ELSE IF IsCommit(m, e) THEN
        LET f == Top(m) prev == Last(m.rows) IN
        (IF e.old + 1 = Len(m.rows) THEN {} ELSE {"C03.CommitAppendsAfterLastRow", "C12.CommitAppendsAfterLastRow"})
        \cup (IF e.s.tc = m.ret.tEnd /\ e.s.yc = m.ret.yEnd THEN {} ELSE {"C03.CommitIsIntegratorResult", "C02.CommitIsIntegratorResult"})
        \cup (IF Beyond(f.dir, prev.t, e.s.tc) THEN {} ELSE {"C03.StrictlyMonotoneTowardTarget"})
        \cup (IF e.beyondUlps <= UlpFew THEN {} ELSE {"C03.NoOvershoot"})
    ELSE IF IsRestore(m, e) THEN
        (IF e.s.tc = m.rolled.t /\ e.s.yc = m.rolled.y THEN {} ELSE {"C07.RestoreSameRow", "C03.RestoreSameRow"})
    ELSE IF IsRollback(m, e) THEN
        (IF HasFrame(m) /\ Top(m).nevents > 0 /\ Len(m.rows) >= 2 /\ IsNone(m.rolled) THEN {} ELSE {"C03.RollbackOnlyForEvents", "C05.RejectedNeverRecorded"})
    ELSE {"C03.CounterOnlyCommitsRollsBackOrRestores", "C05.RejectedNeverRecorded", "C12.CounterOnlyCommitsRollsBackOrRestores"}
UpdCounter(m, e, tr) ==
    IF m.inReset THEN [m EXCEPT !.rows = <<[t |-> e.s.tc, y |-> e.s.yc]>>]
    ELSE IF IsCommit(m, e) THEN
        [m EXCEPT !.rows = Append(@, [t |-> e.s.tc, y |-> e.s.yc]), !.ret = None, !.rolled = None,
                  !.frames = [@ EXCEPT ![Len(@)].steps = @ + 1],
                  !.cbDue = IF Top(m).depth = 1 THEN TRUE ELSE @]
    ELSE IF IsRestore(m, e) THEN [m EXCEPT !.rows = Append(@, m.rolled), !.rolled = None]
    ELSE IF IsRollback(m, e) /\ Len(m.rows) >= 2 THEN [m EXCEPT !.rolled = Last(m.rows), !.rows = Front(@)]
    ELSE m

(* dense output pieces *)
ChkSolAdd(m, e, tr) ==
    (IF e.before = Len(m.pieces) THEN {} ELSE {"C06.PieceListTracksLog"})
    \cup (IF m.fam # "rich" /\ e.hasEnds /\ Len(m.rows) >= 2 /\ IsNone(m.rolled)
             /\ ~(e.t0 = m.rows[Len(m.rows) - 1].t /\ e.t1 = Last(m.rows).t /\ e.t = e.t1)
          THEN {"C06.PieceSpansItsStep"} ELSE {})
UpdSolAdd(m, e, tr) == [m EXCEPT !.pieces = Append(@, e.t)]
ChkSolRemove(m, e, tr) ==
    IF e.idx + 1 \in 1..Len(m.pieces) /\ m.pieces[e.idx + 1] = e.t THEN {} ELSE {"C06.PieceListTracksLog"}
UpdSolRemove(m, e, tr) ==
    IF e.idx + 1 \in 1..Len(m.pieces)
    THEN [m EXCEPT !.pieces = SubSeq(@, 1, e.idx) \o SubSeq(@, e.idx + 2, Len(@))] ELSE m

(* event handling *)
ChkHandleEvents(m, e, tr) ==
    IF Some(m.rolled) /\ e.prev = Last(m.rows).t /\ e.next = m.rolled.t THEN {} ELSE {"C07.EventWindowIsTheStep", "C08.EventWindowIsTheStep"}
UpdHandleEvents(m, e, tr) == [m EXCEPT !.window = [prev |-> e.prev, next |-> e.next, recs |-> << >>, terminate |-> FALSE]]
ChkHandleEventsRet(m, e, tr) ==
    LET dir == IF e.next > e.prev THEN 1 ELSE -1 IN
    (IF \A k \in 1..(Len(e.roots) - 1) : ~Beyond(dir, e.roots[k + 1], e.roots[k]) THEN {} ELSE {"C07.RootsOrderedAlongDirection"})
    \cup (IF Cardinality(SeqRange(e.active)) = Len(e.active) THEN {} ELSE {"C07.OneRootPerEventPerStep"})
UpdHandleEventsRet(m, e, tr) ==
    IF IsNone(m.window) THEN m ELSE
    [m EXCEPT !.window.terminate = e.terminate,
              !.frames = IF e.terminate THEN [@ EXCEPT ![Len(@)].terminated = TRUE] ELSE @]
ChkEventRec(m, e, tr) ==
    IF IsNone(m.window) THEN {"C07.EventOutsideEventHandling"} ELSE
    LET w == m.window dir == IF w.next > w.prev THEN 1 ELSE -1 IN
    (IF Between(w.prev, e.t, w.next) THEN {} ELSE {"C07.EventInsideItsStep"})
    \cup (IF <<e.ev, e.t>> \in m.evseen THEN {"C07.NoCrossingReportedTwice"} ELSE {})
    \cup (IF e.nearUlps >= 0 /\ e.nearUlps <= 64 THEN {"C07.NoCrossingReportedTwice"} ELSE {})
    \cup (IF Len(w.recs) > 0 /\ Beyond(dir, e.t, Last(w.recs)) THEN {"C07.EventsOrderedAlongDirection"} ELSE {})
    \cup (IF e.n = e.s.nev THEN {} ELSE {"C07.EventListAppendOnly"})
UpdEventRec(m, e, tr) ==
    IF IsNone(m.window) THEN m ELSE
    [m EXCEPT !.evseen = @ \cup {<<e.ev, e.t>>}, !.window.recs = Append(@, e.t),
              !.opEv = Append(@, [t |-> e.t, ev |-> e.ev,
                                  term |-> IF HasFrame(m) /\ e.ev + 1 \in 1..Len(m.frames[1].term) THEN m.frames[1].term[e.ev + 1] ELSE FALSE])]

(* callbacks *)
ChkCallback(m, e, tr) ==
    (IF HasFrame(m) /\ Top(m).depth = 1 /\ m.cbDue THEN {} ELSE {"C20.CallbackOnlyAfterRecordedStep"})
    \cup (IF IsNone(m.rolled) /\ e.s.counter + 1 = Len(m.rows) /\ e.s.tc = Last(m.rows).t /\ e.s.yc = Last(m.rows).y
          THEN {} ELSE {"C20.CallbackSeesRecordedState"})
    \cup (IF e.i = Len(m.cbSeen) THEN {} ELSE {"C20.CallbacksOncePerStepInOrder"})
UpdCallback(m, e, tr) == [m EXCEPT !.cbSeen = Append(@, e.i), !.cbIn = e.i]
UpdCallbackRet(m, e, tr) == [m EXCEPT !.cbIn = -1]

ChkDtAssign(m, e, tr) ==
    (IF FixedFam(m.fam) /\ m.cbIn = -1 /\ HasFrame(m) /\ Some(m.call) THEN {"C04.DtStableDuringStep"} ELSE {})
    \cup (IF m.fam \in {"fixed", "split", "fixedimp"} /\ m.cbIn = -1 /\ HasFrame(m) /\ Top(m).calls > 0 /\ e.dtm # Top(m).dtmCall
          THEN {"C04.DtKeptBetweenSteps", "C13.DtKeptBetweenSteps"} ELSE {})
UpdDtAssign(m, e, tr) ==
    IF m.cbIn >= 0 /\ HasFrame(m)
    THEN [m EXCEPT !.cbDtm = e.dtm, !.cbDtPending = TRUE, !.frames = [@ EXCEPT ![Len(@)].dtmCall = e.dtm, ![Len(@)].cbAssigned = TRUE]]
    ELSE m

(* integrate returns / raises *)
ChkIntegrateRet(m, e, tr) ==
    IF ~HasFrame(m) THEN {"C03.ReturnWithoutCall"} ELSE
    LET f == Top(m) IN
    (IF f.atTarget /\ ~(e.s.counter = f.c0 /\ e.s.nfev = f.nfev0) THEN {"C13.CallAtTargetChangesNothing"} ELSE {})
    \cup (IF ~f.atTarget /\ f.finite /\ ~f.terminated /\ e.endUlps > EndUnits THEN {"C03.EndsAtTarget", "C12.ResumeReachesTarget"} ELSE {})
    \cup (IF f.depth > 1 /\ f.finite /\ e.endUlps > EndUnits THEN {"C09.LandsOnTheEvent"} ELSE {})
    \cup (IF f.depth = 1 /\ ~f.atTarget /\ e.s.buf # e.s.counter + 1 THEN {"C03.TrimmedOnReturn"} ELSE {})
    \cup (IF f.depth = 1 /\ ~f.atTarget /\ f.terminated /\ e.s.status # "event" THEN {"C09.StatusReportsEvent"} ELSE {})
    \cup (IF f.depth = 1 /\ ~f.atTarget /\ ~f.terminated /\ e.s.status \notin {"done", "event"} THEN {"C03.StatusReportsSuccess"} ELSE {})
    \cup (IF f.depth = 1 /\ f.ncb > 0 /\ m.cbDue /\ m.cbSeen # [k \in 1..f.ncb |-> k - 1] THEN {"C20.CallbacksOncePerStepInOrder"} ELSE {})
    \cup (IF Some(m.ret) THEN {"C05.AcceptedStepDropped"} ELSE {})
    \* a fixed-step run that was stopped by a terminal event goes on with the requested step - the step in force when the step that
    \* met the event was requested, be that step a full one or the clamped last one: the shorter steps taken to land on the event are
    \* not carried over (no user intervention: no callback assigned a step during the call)
    \cup (IF f.depth = 1 /\ f.terminated /\ m.fam \in {"fixed", "split", "fixedimp"} /\ ~f.cbAssigned /\ f.lastDtm # -1
             /\ e.s.dtm # f.lastDtm
          THEN {"C04.RequestedStepRestoredAfterLandingOnAnEvent"} ELSE {})
    \cup (IF Some(m.rolled) /\ f.depth = 1 THEN {"C07.RolledBackRowNeverRestored", "C03.RolledBackRowNeverRestored"} ELSE {})
UpdIntegrateRet(m, e, tr) ==
    IF ~HasFrame(m) THEN m ELSE
    [m EXCEPT !.frames = Front(@), !.window = IF Top(m).depth = 1 THEN None ELSE @,
              !.rolled = IF Top(m).depth > 1 THEN None ELSE @,
              !.opTerminated = @ \/ (Top(m).depth = 1 /\ Top(m).terminated)]

ChkIntegrateRaise(m, e, tr) ==
    IF ~HasFrame(m) THEN {} ELSE
    LET f == Top(m) IN
    (IF e.exc \in {"FailedIntegration", "KeyboardInterrupt"} THEN {} ELSE {"C12.FailureIsIntegrationError"})
    \cup (IF f.depth = 1 /\ e.s.buf # e.s.counter + 1 THEN {"C12.TrimmedAfterFailure", "C03.TrimmedOnReturn"} ELSE {})
    \cup (IF f.depth = 1 /\ e.exc = "FailedIntegration" /\ e.s.status # "failed" THEN {"C12.StatusReportsFailure"} ELSE {})
    \cup (IF f.depth = 1 /\ e.exc = "KeyboardInterrupt" /\ e.s.status # "interrupted" THEN {"C12.StatusReportsFailure"} ELSE {})
UpdIntegrateRaise(m, e, tr) ==
    IF ~HasFrame(m) THEN m ELSE
    [m EXCEPT !.frames = Front(@), !.call = None, !.ret = None, !.window = None, !.cbIn = -1,
              !.rolled = IF Top(m).depth = 1 THEN None ELSE @]

UpdResetCall(m, e, tr) == [m EXCEPT !.inReset = TRUE]
UpdResetRet(m, e, tr) ==
    [m EXCEPT !.inReset = FALSE, !.nfevBase = e.s.rhsDone - e.s.nfev, !.pieces = << >>, !.evseen = {},
              !.ret = None, !.rolled = None, !.call = None, !.window = None, !.cbDtPending = FALSE]
ChkResetRet(m, e, tr) ==
    (IF e.s.counter = 0 /\ e.s.tc = tr.t0 /\ e.s.yc = m.y0 THEN {} ELSE {"C13.ResetRestoresInitialState", "C12.ResetRestoresPristineSystem"})
    \cup (IF e.s.nsol = 0 /\ e.s.nev = 0 /\ e.s.status = "notrun" /\ e.s.nfev = 0 THEN {} ELSE {"C13.ResetClearsHistory", "C20.ResetClearsCounter", "C12.ResetRestoresPristineSystem"})
    \cup (IF e.s.dtm = m.dtm0 THEN {} ELSE {"C13.ResetRestoresStep", "C12.ResetRestoresPristineSystem"})
    \cup (IF e.s.buf = 1 THEN {} ELSE {"C13.ResetTrimsStorage"})

(* API level results: the observable state against the tracked state *)
ChkApiRet(m, e, tr) ==
    (IF e.grid = [k \in 1..Len(m.rows) |-> m.rows[k].t] /\ e.ygrid = [k \in 1..Len(m.rows) |-> m.rows[k].y]
     THEN {} ELSE {"C03.RecordedRowsAreTheCommittedSteps", "C12.RecordedRowsAreTheCommittedSteps", "C13.RecordedRowsAreTheCommittedSteps"})
    \cup (IF e.err = "BudgetExceeded" THEN {"C03.RunTerminates", "C04.RunTerminates", "C05.RunTerminates", "C09.RunTerminates",
                                             "C12.RunTerminates", "C13.RunTerminates", "C20.RunTerminates",
                                             "C06.RunTerminates", "C07.RunTerminates", "C08.RunTerminates"} ELSE {})
    \* storage is trimmed to the recorded rows by a call that ran; a call at its target and an assignment leave it as allocated
    \cup (IF e.paired /\ (e.lenT = Len(e.grid) \/ m.opNoop \/ e.op = "set") THEN {} ELSE {"C03.TimesAndStatesPaired", "C12.TimesAndStatesPaired"})
    \cup (IF e.finite THEN {} ELSE {"C03.StoredValuesFinite", "C12.StoredValuesFinite", "C05.NoInaccurateStateRecorded"})
    \cup (IF e.op = "integrate" /\ e.k \in SeqRange(tr.expectFail) /\ e.err = "none" THEN {"C05.ErrorRaisedWhenTolerancesCannotBeMet", "C12.ErrorRaisedWhenTolerancesCannotBeMet"} ELSE {})
    \cup (IF e.op = "integrate" /\ e.k \in SeqRange(tr.expectFail) /\ e.err # "none" /\ "FailedToMeetTolerances" \notin SeqRange(e.chain)
          THEN {"C05.FailureNamesTolerances", "C12.FailureCarriesOriginalCause"} ELSE {})
    \cup (IF e.dtypeOk THEN {} ELSE {"C03.PrecisionOfInitialState"})
    \cup (IF Len(e.grid) >= 1 /\ e.grid[1] = tr.t0 /\ e.ygrid[1] = m.y0 THEN {} ELSE {"C03.FirstRowIsInitial", "C13.FirstRowIsInitial"})
    \cup (IF e.y0Untouched THEN {} ELSE {"C13.CallerDataUntouched"})
    \cup (IF e.nfev = e.s.rhsDone - m.nfevBase THEN {} ELSE {"C20.NfevCountsCompletedCalls"})
    \cup (IF e.nsol = Len(m.pieces) /\ e.solT = m.pieces THEN {} ELSE {"C06.PieceListTracksLog"})
    \cup (IF tr.dense /\ m.fam # "rich" /\ e.op \in {"integrate"} /\ e.solT # SubSeq(e.grid, 2, Len(e.grid))
          THEN {"C06.PiecesAreExactlyTheRecordedSteps", "C09.PiecesAreExactlyTheRecordedSteps", "C12.PiecesAreExactlyTheRecordedSteps"} ELSE {})
    \* the pieces a call adds are ordered along that call's direction, starting beyond the piece that was last when it was made
    \* (calls may run in different directions: the piece list as a whole is ordered only while they do not)
    \cup (IF tr.dense /\ e.op = "integrate" /\ Len(e.solT) >= 2
             /\ ~(\A k \in 1..(Len(e.solT) - 1) : k >= m.opPiece0 /\ k >= 1 => Beyond(m.opDir, e.solT[k], e.solT[k + 1]))
          THEN {"C06.PiecesOrderedAlongTheRun", "C09.PiecesOrderedAlongTheRun", "C07.PiecesOrderedAlongTheRun"} ELSE {})
    \cup (IF e.solPub = tr.dense THEN {} ELSE {"C06.SolutionObjectIffDense"})
    \* the per-function view `events_dict` is the event list grouped by event function, in list order (sensor: exact comparison)
    \cup (IF e.evDictOk THEN {} ELSE {"C07.EventsDictAgreesWithEventList"})
    \cup (IF e.op = "integrate" /\ e.err = "none" /\ ~m.opNoop /\ ~e.success THEN {"C03.SuccessReported", "C09.SuccessReported"} ELSE {})
    \cup (IF e.op = "integrate" /\ e.err # "none" /\ e.success THEN {"C12.StatusReportsFailure"} ELSE {})
    \* a call in which no fault was injected and whose tolerances can be met must not raise (the scenario says which calls may fail)
    \cup (IF e.op = "integrate" /\ e.err \notin {"none", "BudgetExceeded"} /\ e.site = "none" /\ e.k \notin SeqRange(tr.expectFail) /\ ~tr.mayFail
          THEN {"C03.CallCompletes", "C04.CallCompletes", "C05.CallCompletes", "C06.CallCompletes", "C07.CallCompletes", "C08.CallCompletes",
                "C09.CallCompletes", "C13.CallCompletes", "C20.CallCompletes", "C02.CallCompletes"} ELSE {})
    \cup (IF e.op = "integrate" /\ e.err # "none" /\ e.site # "none"
             /\ ~((e.err = "KeyboardInterrupt" /\ e.chain[1] = "KeyboardInterrupt")
                  \/ (e.err = "FailedIntegration" /\ "Injected" \in SeqRange(e.chain)))
          THEN {"C12.FailureCarriesOriginalCause"} ELSE {})
    \cup (IF e.op = "integrate" /\ e.err = "none" /\ m.opTerminated /\ Len(e.evT) > 0
             /\ Last(e.grid) # Last(e.evT) /\ e.lastEvUlps > EndUnits
          THEN {"C09.LastRowIsTheEvent"} ELSE {})
    \cup (IF e.op = "integrate" /\ e.err = "none" /\ m.opTerminated
             /\ ~(Len(m.opEv) > 0 /\ Last(m.opEv).term /\ \A k \in 1..(Len(m.opEv) - 1) : ~m.opEv[k].term)
          THEN {"C09.ExactlyTheEarliestTerminalEventReported"} ELSE {})
    \cup (IF e.op = "integrate" /\ e.err = "none" /\ m.opTerminated
             /\ Len(e.evT) >= Len(m.opEv)
             /\ (\E k \in 1..Len(m.opEv) : Beyond(m.opDir, Last(e.grid), m.opEv[k].t)
                                            /\ e.evGap[Len(e.evT) - Len(m.opEv) + k] > EndUnits)
          THEN {"C09.NoEventBeyondTheStop"} ELSE {})
    \cup (IF e.op = "integrate" /\ e.err = "none"
          THEN LET terms == {k \in 1..Len(e.truthT) : e.truthTerm[k] /\ e.truthDirOk[k]} IN
               IF terms = {} THEN {}
               ELSE LET first == CHOOSE k \in terms : \A j \in terms : ~Beyond(m.opDir, e.truthT[j], e.truthT[k]) \/ j = k IN
                    (IF m.opTerminated THEN {} ELSE {"C09.TerminalEventStopsTheRun", "C08.TerminalCrossingNotMissed"})
                    \cup (IF m.opTerminated /\ e.truthGap[first] > EndUnits THEN {"C09.StopsAtTheEarliestTerminalRoot"} ELSE {})
          ELSE {})
    \cup (IF e.op = "reset" /\ ~(e.grid = <<tr.t0>> /\ e.ygrid = <<m.y0>> /\ e.nsol = 0 /\ e.evT = << >> /\ e.status = "notrun"
                                 /\ e.nfev = 0 /\ e.dtm = m.dtm0 /\ e.lenT = 1)
          THEN {"C13.ResetRestoresInitialState"} ELSE {})
UpdApiRet(m, e, tr) == [m EXCEPT !.fam = e.family]
UpdApi(m, e, tr) == [m EXCEPT !.opTerminated = FALSE, !.opEv = << >>, !.opDir = 0, !.opNoop = FALSE]

Chk(m, e, tr) ==
    Always(m, e) \cup
    CASE e.e = "New" -> ChkNew(m, e, tr)
      [] e.e = "IntegCall" -> ChkIntegCall(m, e, tr)
      [] e.e = "Attempt" -> ChkAttempt(m, e, tr)
      [] e.e = "AttemptRet" -> ChkAttemptRet(m, e, tr)
      [] e.e = "IntegRet" -> ChkIntegRet(m, e, tr)
      [] e.e = "Counter" -> ChkCounter(m, e, tr)
      [] e.e = "SolAdd" -> ChkSolAdd(m, e, tr)
      [] e.e = "SolRemove" -> ChkSolRemove(m, e, tr)
      [] e.e = "HandleEvents" -> ChkHandleEvents(m, e, tr)
      [] e.e = "HandleEventsRet" -> ChkHandleEventsRet(m, e, tr)
      [] e.e = "EventRec" -> ChkEventRec(m, e, tr)
      [] e.e = "Callback" -> ChkCallback(m, e, tr)
      [] e.e = "DtAssign" -> ChkDtAssign(m, e, tr)
      [] e.e = "IntegrateRet" -> ChkIntegrateRet(m, e, tr)
      [] e.e = "IntegrateRaise" -> ChkIntegrateRaise(m, e, tr)
      [] e.e = "ResetRet" -> ChkResetRet(m, e, tr)
      [] e.e = "ApiRet" -> ChkApiRet(m, e, tr)
      [] OTHER -> {}

Upd(m, e, tr) ==
    CASE e.e = "New" -> UpdNew(m, e, tr)
      [] e.e = "IntegrateCall" -> UpdIntegrateCall(m, e, tr)
      [] e.e = "IntegCall" -> UpdIntegCall(m, e, tr)
      [] e.e = "Attempt" -> UpdAttempt(m, e, tr)
      [] e.e = "AttemptRet" -> UpdAttemptRet(m, e, tr)
      [] e.e = "Controller" -> UpdController(m, e, tr)
      [] e.e = "IntegRet" -> UpdIntegRet(m, e, tr)
      [] e.e = "IntegRaise" -> UpdIntegRaise(m, e, tr)
      [] e.e = "Counter" -> UpdCounter(m, e, tr)
      [] e.e = "SolAdd" -> UpdSolAdd(m, e, tr)
      [] e.e = "SolRemove" -> UpdSolRemove(m, e, tr)
      [] e.e = "HandleEvents" -> UpdHandleEvents(m, e, tr)
      [] e.e = "HandleEventsRet" -> UpdHandleEventsRet(m, e, tr)
      [] e.e = "EventRec" -> UpdEventRec(m, e, tr)
      [] e.e = "Callback" -> UpdCallback(m, e, tr)
      [] e.e = "CallbackRet" -> UpdCallbackRet(m, e, tr)
      [] e.e = "DtAssign" -> UpdDtAssign(m, e, tr)
      [] e.e = "IntegrateRet" -> UpdIntegrateRet(m, e, tr)
      [] e.e = "IntegrateRaise" -> UpdIntegrateRaise(m, e, tr)
      [] e.e = "ResetCall" -> UpdResetCall(m, e, tr)
      [] e.e = "ResetRet" -> UpdResetRet(m, e, tr)
      [] e.e = "ApiRet" -> UpdApiRet(m, e, tr)
      [] e.e = "Api" -> UpdApi(m, e, tr)
      [] OTHER -> m

(***************************************************************************)
(* The monitor as a state machine: one state per consumed event             *)
(***************************************************************************)
VARIABLES ti, l, m, bad
vars == <<ti, l, m, bad>>

Init == ti = 1 /\ l = 1 /\ m = InitM /\ bad = {}

Consume ==
    /\ ti <= Len(Traces)
    /\ l <= Len(Traces[ti].events)
    /\ LET tr == Traces[ti] e == tr.events[l]
           new == {c \in Chk(m, e, tr) : ~\E b \in bad : b.id = tr.id /\ b.clause = c}
       IN  /\ bad' = bad \cup {[id |-> tr.id, clause |-> c, at |-> l, ev |-> e.e] : c \in new}
           /\ m' = LET u == Upd(m, e, tr) IN IF "s" \in DOMAIN e THEN [u EXCEPT !.dtmPrev = e.s.dtm] ELSE u
    /\ l' = l + 1
    /\ ti' = ti

NextTrace ==
    /\ ti <= Len(Traces)
    /\ l = Len(Traces[ti].events) + 1
    /\ ti' = ti + 1 /\ l' = 1 /\ m' = InitM
    /\ bad' = bad \cup (IF Len(m.frames) = 0 \/ (\E b \in bad : b.id = Traces[ti].id /\ b.clause = "C03.RunTerminates") THEN {} ELSE {[id |-> Traces[ti].id, clause |-> "C03.EveryCallReturns", at |-> l, ev |-> "end"]})

Next == Consume \/ NextTrace
Spec == Init /\ [][Next]_vars

Done == ti = Len(Traces) + 1
Emit == Done => JsonSerialize(IOEnv.VF_OUT, [n |-> Len(Traces), bad |-> bad])
=============================================================================
