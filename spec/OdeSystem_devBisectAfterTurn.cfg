CONSTANTS
  T0S <- MCT0S
  TFS <- MCTFS
  DTS <- MCDTS
  TARGETS <- MCTARGETS
  ADAPTIVE = FALSE
  ROOTS <- NoRoots
  DENSE = TRUE
  MAXCALLS = 3
  MAXROWS = 7
  FAULTS = FALSE
  CBDTS <- NoCb
  Dev <- DevBisectAfterTurn
SPECIFICATION Spec
CONSTRAINT StateConstraint
INVARIANT TypeOK
INVARIANT FirstRowIsInitial
INVARIANT SegmentMonotone
INVARIANT PiecesAreSteps
INVARIANT QueriesAnsweredByContainingStep
INVARIANT EventsAreRoots
INVARIANT NoEventTwice
PROPERTY EndsAtTarget
PROPERTY NoOvershootOnCommit
PROPERTY Progress
PROPERTY FixedStepsEqualDt
PROPERTY FixedDtKeptBetweenSteps
PROPERTY TerminalStop
PROPERTY FailureLeavesPrefix
PROPERTY ResetRestores
PROPERTY CallAtTargetChangesNothing
CHECK_DEADLOCK FALSE
