------------------------------- MODULE Contracts ------------------------------
(* The function family and the contract of the bracketing root finders (C14).       *)
(* A function is  f(x) = s * PROD_i (x - r_i)^(m_i)  (kind "poly") or               *)
(* f(x) = s * sign(x - r_1) * (1 + |x|)  (kind "jump", discontinuous at r_1), or       *)
(* f(x) = s * (x - r_1) / (1 + x^2)  (kind "decay": small far from the root, so that    *)
(* the bracket end with the smaller |f| may be the one FAR from the root), or           *)
(* f(x) = s  (kind "const"); roots and bracket ends are integers in eighths, so the    *)
(* specification knows the sign of f at every bracket end and every sign change        *)
(* inside the bracket.  With $VF_OUT the module writes the case lattice with its        *)
(* ground truth; BrentJudge.tla decides the observations.                              *)
EXTENDS Integers, Sequences, FiniteSets, TLC, Json, IOUtils, SequencesExt

Shapes == << [kind |-> "poly", roots |-> <<3>>, mult |-> <<1>>],
             [kind |-> "poly", roots |-> <<-5>>, mult |-> <<3>>],
             [kind |-> "poly", roots |-> <<-4, 6>>, mult |-> <<1, 1>>],
             [kind |-> "poly", roots |-> <<2>>, mult |-> <<2>>],
             [kind |-> "poly", roots |-> <<-6, 1, 9>>, mult |-> <<1, 2, 1>>],
             [kind |-> "poly", roots |-> <<0>>, mult |-> <<1>>],
             [kind |-> "poly", roots |-> <<40>>, mult |-> <<1>>],
             [kind |-> "poly", roots |-> <<-1000>>, mult |-> <<1>>],
             [kind |-> "jump", roots |-> <<5>>, mult |-> <<1>>],
             [kind |-> "jump", roots |-> <<-3>>, mult |-> <<1>>],
             [kind |-> "decay", roots |-> <<8>>, mult |-> <<1>>],
             [kind |-> "decay", roots |-> <<-24>>, mult |-> <<1>>],
             [kind |-> "const", roots |-> << >>, mult |-> << >>] >>
Ends == {-80000000, -1100, -16, -8, -5, -4, 0, 1, 2, 3, 4, 8, 16, 48, 8000000}      \* incl. wide, lopsided brackets: -1e7 and 1e6
Brackets == {<<a, b>> \in Ends \X Ends : a # b}

Sgn(x) == IF x > 0 THEN 1 ELSE IF x < 0 THEN -1 ELSE 0
RECURSIVE SignProd(_, _, _)
SignProd(sh, p, k) == IF k > Len(sh.roots) THEN 1
                      ELSE (IF sh.mult[k] % 2 = 0 THEN Sgn(p - sh.roots[k]) * Sgn(p - sh.roots[k]) ELSE Sgn(p - sh.roots[k])) * SignProd(sh, p, k + 1)
(* sign of f(p)/s at the point p (in eighths) *)
SignAt(sh, p) == IF sh.kind = "const" THEN 1
                 ELSE IF sh.kind \in {"jump", "decay"} THEN Sgn(p - sh.roots[1])
                 ELSE SignProd(sh, p, 1)
Lo(br) == IF br[1] < br[2] THEN br[1] ELSE br[2]
Hi(br) == IF br[1] < br[2] THEN br[2] ELSE br[1]
(* locations of sign changes strictly inside the bracket *)
Changes(sh, br) == {sh.roots[k] : k \in {k \in 1..Len(sh.roots) : sh.mult[k] % 2 = 1 /\ sh.roots[k] > Lo(br) /\ sh.roots[k] < Hi(br)}}
AnyRootInside(sh, br) == \E k \in 1..Len(sh.roots) : sh.roots[k] > Lo(br) /\ sh.roots[k] < Hi(br)
SignChange(sh, br) == SignAt(sh, br[1]) * SignAt(sh, br[2]) < 0
EndZero(sh, br) == SignAt(sh, br[1]) = 0 \/ SignAt(sh, br[2]) = 0

(* sanity of the family, checked by TLC: a sign change over the bracket implies an odd number of sign changes inside *)
VARIABLES k, br
vars == <<k, br>>
Init == k \in 1..Len(Shapes) /\ br \in Brackets
Next == FALSE /\ UNCHANGED vars
Spec == Init /\ [][Next]_vars
IntermediateValue == SignChange(Shapes[k], br) => Cardinality(Changes(Shapes[k], br)) % 2 = 1
NoChangeEvenCount == (~SignChange(Shapes[k], br) /\ ~EndZero(Shapes[k], br)) => Cardinality(Changes(Shapes[k], br)) % 2 = 0
GenOut == [cases |-> SetToSeq({[shape |-> j, kind |-> Shapes[j].kind, roots |-> Shapes[j].roots, mult |-> Shapes[j].mult, a |-> b[1], b |-> b[2],
                                 signChange |-> SignChange(Shapes[j], b), endZero |-> EndZero(Shapes[j], b), anyRoot |-> AnyRootInside(Shapes[j], b),
                                 changes |-> SetToSeq(Changes(Shapes[j], b))] : j \in 1..Len(Shapes), b \in Brackets})]
ASSUME IF "VF_OUT" \in DOMAIN IOEnv THEN JsonSerialize(IOEnv.VF_OUT, GenOut) ELSE TRUE
=============================================================================
