CONSTANTS ADAPTIVE = TRUE  IMPLICIT = FALSE  RETRIES = 3
  HS <- SimHS
  Dev <- NoDev
SPECIFICATION SimSpec
INVARIANT EmitLog
CHECK_DEADLOCK FALSE
