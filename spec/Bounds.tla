------------------------------- MODULE Bounds -------------------------------
(* Every numeric slack used by any clause lives here, with the sentence of    *)
(* the property it implements.                                                *)
EXTENDS Integers

(* "a few rounding units" (C03 ends at the target; C10 reversibility of       *)
(* splitting methods)                                                         *)
UlpFew == 4

(* C03 "ends at the target to within a few rounding units": the gap is measured in   *)
(* units of eps * max(1, |target|); the integrate loop's own exit tolerance is 32    *)
(* machine epsilons (D.tol_epsilon) of unit-size quantities, so that is the bound.   *)
EndUnits == 32

(* C17 "reproduces every cubic exactly (to rounding)": the observed error of   *)
(* the Hermite piece in units of eps*scale, where scale is the sum of the      *)
(* absolute values of the terms of the Hermite formula (its condition).  Any   *)
(* evaluation order of the four-term formula with the cubic basis commits at   *)
(* most ~12 roundings per term.                                                *)
HermiteUnits == 32

(* C04 "changes the computed states only at rounding level" (fixed-step methods, shifted or    *)
(* reflected twin runs) and C13 "within tolerance otherwise": difference of the final states   *)
(* in units of eps * max(1, |y|) per accepted step, resp. in units of (atol + rtol |y|).       *)
TwinRoundingUnitsPerStep == 16
TwinTolUnits == 100

(* "modest multiple" of a tolerance (C15) and "modest constant" (C05)         *)
ModestK == 10
=============================================================================
