------------------------------- MODULE Bounds -------------------------------
(* Every numeric slack used by any clause lives here, with the sentence of    *)
(* the property it implements.                                                *)
EXTENDS Integers

(* "a few rounding units" (C03 ends at the target; C10 reversibility of       *)
(* splitting methods)                                                         *)
UlpFew == 4

(* C03 "ends at the target to within a few rounding units": the gap is measured in   *)
(* units of eps * max(1, |target|); the integrate loop's own exit tolerance is 32    *)
(* machine epsilons (D.tol_epsilon) of unit-size quantities, so that is the bound.   *)
EndUnits == 32

(* C17 "reproduces every cubic exactly (to rounding)": the observed error of   *)
(* the Hermite piece in units of eps*scale, where scale is the sum of the      *)
(* absolute values of the terms of the Hermite formula (its condition).  Any   *)
(* evaluation order of the four-term formula with the cubic basis commits at   *)
(* most ~12 roundings per term.                                                *)
HermiteUnits == 32

(* C04 "changes the computed states only at rounding level" (fixed-step methods, shifted or    *)
(* reflected twin runs) and C13 "within tolerance otherwise": difference of the final states   *)
(* in units of eps * max(1, |y|) per accepted step, resp. in units of (atol + rtol |y|).       *)
TwinRoundingUnitsPerStep == 16
TwinTolUnits == 100

(* C07 "g(t_e, y_e) ~ 0" and "within tolerance level of a true root": the root finder locates t_e to a   *)
(* few eps of unit-size quantities; gUnits is |g| in units of |s| eps max(1,|y|,|c|) max(1,|y'|) and      *)
(* rootGap is |t_e - root| in units of eps max(1,|root|).                                                *)
EventResidualUnits == 256
EventRootGapUnits == 64
(* for state events on problems with a rational exact solution the located root inherits the global     *)
(* error of the integrator: |t_e - t_root| in units of tol / |y'(t_root)|                                   *)
EventRootTolUnits == 100

(* C06 "to within the error tolerance for Richardson-extrapolated wrappers": value at a recorded time in *)
(* units of atol + rtol |y|; and the O(h^4) clause: mid-step error divided by                           *)
(* (h^4 M4 / 384 + error at the two neighbouring grid points + slope error h/8), must stay below        *)
DenseRichTolUnits == 100
DenseMidQuotient == 8

(* C01: an order condition is "satisfied" when the component of one real step on the tree system differs   *)
(* from h^|tau|/gamma(tau) by at most OrderUnits units of eps(float64) * |h|^|tau| (plus the Newton        *)
(* tolerance for implicit methods).  The shipped tables are double precision literals with up to 35        *)
(* stages; the worst value observed on a correct table is ~130 units, a coefficient wrong in the 8th      *)
(* digit gives > 10^7 units.                                                                              *)
OrderUnits == 4096

(* C10: symplecticity of the one-step map M (M^T J M = J) "up to rounding or solver tolerance", and time      *)
(* reversibility step(h); step(-h) "returns the starting state".  For quadratic Hamiltonians M is read        *)
(* column by column from real steps (rounding level, units of eps * stages); for nonlinear ones M is a          *)
(* central finite difference of real steps, whose own truncation/rounding noise is ~1e-10, so the defect        *)
(* must stay below 10^SympFdClass.  Energy: max |H - H0| over the second half of a long run at most            *)
(* EnergyGrowth times the first half.                                                                         *)
SympLinUnits == 512
SympFdClass == -8
ReverseUnits == 512
ReverseTolUnits == 100
EnergyGrowth == 4

(* "modest multiple" of a tolerance (C15) and "modest constant" (C05)         *)
ModestK == 10
(* C05 "a modest constant times (atol + rtol |y|) times the problem's own error amplification": the largest value     *)
(* observed on the unmodified library over the 2250 thorough-tier cases is 50 (Richardson-extrapolated midpoint at     *)
(* 1e-11 and RK108 at 1e-3, both with an initial dt larger than the span: the accepted first step of half the span     *)
(* carries an error its asymptotic estimate under-reports); 99% of the cases are below 17.  The seeded changes that    *)
(* this clause catches (tolerances swapped, error estimate scaled) are off by factors of 10^3 and more.                 *)
(* With the coupled problem "pair" (a component of size 2^-20 under a purely relative tolerance) the same cell - RK108,  *)
(* rtol 1e-3, initial dt larger than the span, first step = half the span = the radius of analyticity of A/(1+t^2) -    *)
(* measures 75 (125 after that first step); the constant was recalibrated from 64 to 128 for that family: the property   *)
(* leaves "modest" open, and a threshold the unmodified library crosses by 17% on one cell decides nothing.             *)
AccuracyK == 128
=============================================================================
