------------------------------- MODULE BrentJudge -----------------------------
(* Judge for C14.  One case per (function of spec/Contracts.tla, bracket, scale,     *)
(* tolerance, dtype, solver variant): the result of the real solver, as facts         *)
(* computed in exact arithmetic:                                                      *)
(*   signChange, endZero   the ground truth copied from the generator                 *)
(*   success               the flag the solver returned                               *)
(*   inside                the returned point lies in the closed bracket               *)
(*   gap                   distance to the nearest sign change inside the bracket in    *)
(*                         units of tol * max(1, |x|)  (-1 when there is none)          *)
(*   residualSmall         |f(x)| <= tol                                               *)
(*   endSmall              |f| <= tol at a bracket end (a root at an end point to       *)
(*                         within the tolerance)                                        *)
(*   agree                 scalar and vectorised solver agree on this component         *)
(*   anyRoot               a root of any multiplicity lies strictly inside the bracket   *)
(* Two regimes are read leniently because the property text is ambiguous there: when f    *)
(* does not change sign over the bracket but has an even root inside, or is below the      *)
(* tolerance at an end point, a success (with vanishing residual) is not an error, and     *)
(* the scalar and the vectorised solver are not required to agree on it.                   *)
EXTENDS Integers, Sequences, FiniteSets, TLC, Json, IOUtils
GapUnits == 4
In == JsonDeserialize(IOEnv.VF_IN)
Cases == In.cases
VARIABLES i, bad
vars == <<i, bad>>
V(o, cl) == [id |-> o.id, clause |-> cl]
CheckCase(o) ==
    (IF o.ran THEN {} ELSE {V(o, "C14.SolverRuns")})
    \cup (IF o.ran /\ (o.signChange \/ o.success) /\ ~o.inside THEN {V(o, "C14.ResultInsideBracket")} ELSE {})
    \cup (IF o.ran /\ o.signChange /\ ~o.success THEN {V(o, "C14.SignChangeImpliesSuccess")} ELSE {})
    \cup (IF o.ran /\ o.signChange /\ o.success /\ ~(o.gap # -1 /\ o.gap <= GapUnits) THEN {V(o, "C14.ResultWithinToleranceOfASignChange")} ELSE {})
    \cup (IF o.ran /\ o.success /\ ~(o.residualSmall \/ (o.gap # -1 /\ o.gap <= GapUnits)) THEN {V(o, "C14.SuccessImpliesRootOrSignChange")} ELSE {})
    \cup (IF o.ran /\ ~o.signChange /\ ~o.endZero /\ ~o.endSmall /\ ~o.anyRoot /\ o.success THEN {V(o, "C14.NoSignChangeNoSuccess")} ELSE {})
    \* agreement is demanded wherever the answer is determined: a sign change, nothing near zero at all, or an exact root at an end point
    \* with no other root in the bracket (the remaining regimes - a function below the tolerance at an end, several roots - are ambiguous)
    \cup (IF o.ran /\ ~o.agree /\ (o.signChange \/ ~(o.endSmall \/ o.anyRoot \/ o.endZero) \/ (o.endZero /\ ~o.anyRoot))
          THEN {V(o, "C14.VectorisedAgreesWithScalar")} ELSE {})
Init == i = 1 /\ bad = {}
Next == /\ i <= Len(Cases)
        /\ bad' = bad \cup CheckCase(Cases[i])
        /\ i' = i + 1
Spec == Init /\ [][Next]_vars
Emit == (i = Len(Cases) + 1) => JsonSerialize(IOEnv.VF_OUT, [n |-> Len(Cases), bad |-> bad])
=============================================================================
