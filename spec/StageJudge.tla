------------------------------ MODULE StageJudge -----------------------------
(* Judge for C02 (defining equations): for one real step on an arbitrary smooth     *)
(* right-hand side the sensor reports, in exact rational arithmetic on the observed   *)
(* values, by how many rounding units each stage slope misses                         *)
(*     k_i = f(t + c_i h, y + h SUM_j a_ij k_j)                                       *)
(* (for splitting methods: the state and time handed to each drift/kick sub-step      *)
(* against the composition so far) and by how many the increment misses h SUM b_i k_i. *)
(* The scale already contains the allowance of each family (64 eps per stage, the      *)
(* solver tolerance for implicit methods, 4 roundings per stage for the increment).    *)
EXTENDS Integers, Sequences, FiniteSets, TLC, Json, IOUtils
In == JsonDeserialize(IOEnv.VF_IN)
Cases == In.cases
VARIABLES i, bad
vars == <<i, bad>>
V(o, cl, k) == [id |-> o.id, clause |-> cl, k |-> k]
CheckCase(o) ==
    IF ~o.observed THEN {V(o, "C02.StepObserved", 0)} ELSE
    {V(o, IF o.kind = "split" THEN "C02.SplittingStepIsCompositionOfSubSteps" ELSE "C02.StageSlopesSatisfyStageEquations", k)
        : k \in {k \in 1..Len(o.stageUnits) : o.stageUnits[k] > 1 /\ (o.kind # "implicit" \/ o.converged)}}
    \cup (IF o.incUnits > 1 THEN {V(o, "C02.IncrementIsWeightedSlopes", 0)} ELSE {})
    \cup (IF o.dTok THEN {} ELSE {V(o, "C02.StepTakenIsStepRequested", 0)})
Init == i = 1 /\ bad = {}
Next == /\ i <= Len(Cases)
        /\ bad' = bad \cup CheckCase(Cases[i])
        /\ i' = i + 1
Spec == Init /\ [][Next]_vars
Emit == (i = Len(Cases) + 1) => JsonSerialize(IOEnv.VF_OUT, [n |-> Len(Cases), bad |-> bad])
=============================================================================
