------------------------------ MODULE DiffRHSGen ------------------------------
(* Generator: all histories of the DiffRHS dispatch machine up to length MAXLEN with the expected answers. *)
EXTENDS Integers, Sequences, FiniteSets, TLC, Json, IOUtils, SequencesExt
CONSTANTS MAXLEN
Ops == <<"jac1", "jac2", "jac0", "hook", "assign", "unhook", "order">>
TimeOf(op) == IF op = "jac1" THEN 1 ELSE IF op = "jac2" THEN 2 ELSE 0
IsJac(op) == op \in {"jac1", "jac2", "jac0"}
RECURSIVE Hists(_)
Hists(n) == IF n = 0 THEN {<< >>} ELSE LET P == Hists(n - 1) IN P \cup {Append(h, Ops[k]) : h \in {x \in P : Len(x) = n - 1}, k \in 1..Len(Ops)}
RECURSIVE Run(_, _, _, _)
(* expected answers of history h from position k with the attached function `hooked` *)
Run(h, k, hooked, attr) ==
    IF k > Len(h) THEN << >>
    ELSE IF IsJac(h[k])
         THEN <<[by |-> IF hooked # "none" THEN hooked ELSE IF attr THEN "attr" ELSE "fd", t |-> TimeOf(h[k])]>> \o Run(h, k + 1, hooked, attr)
         ELSE Run(h, k + 1, IF h[k] = "hook" THEN "hook" ELSE IF h[k] = "assign" THEN "assign" ELSE IF h[k] = "order" THEN hooked ELSE "none", attr)
VARIABLE done
Init == done = FALSE
Next == ~done /\ done' = TRUE
Spec == Init /\ [][Next]_done
Emit == done => JsonSerialize(IOEnv.VF_OUT, [histories |-> SetToSeq({[ops |-> h, attr |-> a, expect |-> Run(h, 1, "none", a)]
                                                                      : h \in {x \in Hists(MAXLEN) : \E k \in 1..Len(x) : IsJac(x[k])}, a \in BOOLEAN})])
=============================================================================
