CONSTANTS G = 9  MaxLen = 7
SPECIFICATION Spec
INVARIANT ResultIsFirstNotSmaller
INVARIANT BracketInvariant
PROPERTY IntervalShrinks
CHECK_DEADLOCK FALSE
