------------------------------ MODULE TimerJudge ------------------------------
(* Trace validation for BlockTimer / convert_suffix: each trace is the sequence of          *)
(* (operation with the clock it saw, observed outcome) recorded from one real object.  The    *)
(* judge steps TimerModel!TApply - under the deviations the code is known to have - along     *)
(* the recorded operations, one TLC state per call; the timer's state is inferred.            *)
EXTENDS TimerModel, Json, IOUtils
In == JsonDeserialize(IOEnv.VF_IN)
Traces == In.traces
Convs == In.conv
VARIABLES ti, k, s, bad
vars == <<ti, k, s, bad>>
V(id, kk, cl) == [id |-> id, step |-> kk, clause |-> cl]
ConvBad == {V(ToString(c.v), 0, "Timer.ConvertSuffix") : c \in {x \in {Convs[i] : i \in 1..Len(Convs)} : x.out # Conv(x.v)}}
Init == ti = 1 /\ k = 1 /\ s = NoTimer /\ bad = ConvBad
Next == /\ ti <= Len(Traces)
        /\ LET tr == Traces[ti] IN
           IF k > Len(tr.steps) THEN ti' = ti + 1 /\ k' = 1 /\ s' = NoTimer /\ bad' = bad
           ELSE LET e == tr.steps[k] r == TApply(s, e.o) IN
                /\ bad' = bad \cup (IF e.out.kind # r[2].kind THEN {V(tr.id, k, "Timer.Outcome." \o e.o.op \o ".expected." \o r[2].kind \o ".observed." \o e.out.kind)}
                                     ELSE IF e.out.val # r[2].val THEN {V(tr.id, k, "Timer.Value." \o e.o.op)} ELSE {})
                /\ s' = r[1] /\ k' = k + 1 /\ ti' = ti
Spec == Init /\ [][Next]_vars
Emit == (ti = Len(Traces) + 1) => JsonSerialize(IOEnv.VF_OUT, [n |-> Len(Traces) + Len(Convs), bad |-> bad])
=============================================================================
