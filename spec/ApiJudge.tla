------------------------------- MODULE ApiJudge -------------------------------
(* Trace validation for the public small operations of OdeSystem: each recorded trace is *)
(* a sequence of (operation, observed outcome, observed projected state) taken from the    *)
(* real object at each public call's return.  The judge steps ApiModel!Apply along the      *)
(* recorded operations - one TLC state per operation - and names every field of every step   *)
(* where the observation is not what the reference allows.  After a mismatch the reference   *)
(* state is re-synchronised to the observation where possible so that the rest of the trace  *)
(* is still examined.                                                                        *)
EXTENDS ApiModel
In == JsonDeserialize(IOEnv.VF_IN)
Traces == In.traces
VARIABLES ti, k, s, bad
vars == <<ti, k, s, bad>>
V(tr, kk, cl) == [id |-> tr.id, step |-> kk, clause |-> cl]
Fields == {"t0", "tf", "dtSign", "status", "method", "rows", "atEnd"}
Diff(exp, obs) == {f \in Fields : IF f = "dtSign" THEN obs[f] \notin exp[f] ELSE exp[f] # obs[f]}
StepBad(tr, kk, st0) ==
    LET e == tr.steps[kk] r == Apply(st0, e.o) IN
    (IF e.out = r[2] THEN {} ELSE {V(tr, kk, "Api.Outcome." \o e.o.op \o ".expected." \o r[2] \o ".observed." \o e.out)})
    \cup {V(tr, kk, "Api.State." \o f \o ".after." \o e.o.op) : f \in Diff(Project(r[1]), e.obs)}
(* re-synchronise: adopt the observed projection (pos is inferred from atEnd) *)
Resync(st1, obs) == [st1 EXCEPT !.t0 = obs.t0, !.tf = obs.tf, !.dtSign = {obs.dtSign}, !.status = obs.status, !.method = obs.method, !.rows = obs.rows,
                                 !.pos = IF obs.atEnd THEN obs.tf ELSE IF st1.pos = obs.tf THEN st1.pos0 ELSE st1.pos]
Init == ti = 1 /\ k = 1 /\ s = Init0 /\ bad = {}
Next == /\ ti <= Len(Traces)
        /\ LET tr == Traces[ti] IN
           IF k > Len(tr.steps) THEN ti' = ti + 1 /\ k' = 1 /\ s' = Init0 /\ bad' = bad
           ELSE LET b == StepBad(tr, k, s) r == Apply(s, tr.steps[k].o) IN
                /\ bad' = bad \cup b
                /\ s' = IF b = {} THEN r[1] ELSE Resync(r[1], tr.steps[k].obs)
                /\ k' = k + 1 /\ ti' = ti
Spec == Init /\ [][Next]_vars
Emit == (ti = Len(Traces) + 1) => JsonSerialize(IOEnv.VF_OUT, [n |-> Len(Traces), bad |-> bad])
=============================================================================
