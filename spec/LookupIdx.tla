------------------------------ MODULE LookupIdx ------------------------------
(* Small-scope model of the trajectory lookup semantics (C19): TLC checks the    *)
(* algebra of the reference operators on every grid of the scope, increasing and  *)
(* decreasing: integer indexing is total on -n..n-1 and rejects everything else,  *)
(* the nearest-sample set is non-empty, contains only rows at minimal distance,   *)
(* has at most two elements (a tie), equals {row} for a recorded time, and is the  *)
(* mirror image under time reflection (forward and backward runs are treated      *)
(* alike).                                                                        *)
EXTENDS Lookup, TLC
CONSTANTS G, MaxLen
GridPts == {2 * k : k \in 0..(G - 1)}
Arrays == {SortedSeq(S) : S \in {T \in SUBSET GridPts : Cardinality(T) >= 1 /\ Cardinality(T) <= MaxLen}}
Reverse(s) == [k \in 1..Len(s) |-> s[Len(s) + 1 - k]]
Negate(s) == [k \in 1..Len(s) |-> -s[k]]
Queries == (-2)..(2 * G)
VARIABLES a, q, idx
vars == <<a, q, idx>>
Init == a \in Arrays \cup {Reverse(x) : x \in Arrays} /\ q \in Queries /\ idx \in (-MaxLen - 2)..(MaxLen + 2)
Next == FALSE /\ UNCHANGED vars
Spec == Init /\ [][Next]_vars
IndexTotal == LET r == IndexInt(Len(a), idx) IN
                (r.ok <=> (idx >= -Len(a) /\ idx < Len(a))) /\ (r.ok => (r.row \in 0..(Len(a) - 1) /\ a[r.row + 1] = a[IF idx >= 0 THEN idx + 1 ELSE Len(a) + idx + 1]))
NearestWellDefined ==
    LET N == NearestRows(a, q) IN
    /\ N # {} /\ Cardinality(N) <= 2
    /\ \A r \in N : \A k \in 1..Len(a) : Abs(a[r + 1] - q) <= Abs(a[k] - q)
    /\ (\E k \in 1..Len(a) : a[k] = q) => N = {(CHOOSE k \in 1..Len(a) : a[k] = q) - 1}
NearestMirror == NearestRows(Negate(a), -q) = NearestRows(a, q)
=============================================================================
