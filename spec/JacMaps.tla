-------------------------------- MODULE JacMaps -------------------------------
(* Polynomial maps f: R^n -> R^m with integer coefficients and their exact Jacobians  *)
(* at points with coordinates in eighths (C16).                                       *)
(*   f_i(x) = SUM_j c_ij x_j + SUM_j q_ij x_j^2 + (i mod 2) x_1 x_n   (cross term n>=2) *)
(*   c_ij = ((3 i + 5 j) mod 7) - 3,   q_ij = LIN ? 0 : ((i + 2 j) mod 3) - 1            *)
(* 8 * J_ij = 8 c_ij + 2 q_ij X_j + cross,  X = 8 x.  TLC checks J against finite        *)
(* differences in exact integer arithmetic (the quadratic has an exact central           *)
(* difference) and writes the cases.                                                     *)
EXTENDS Integers, Sequences, FiniteSets, TLC, Json, IOUtils, SequencesExt
Sizes == {<<1, 1>>, <<2, 3>>, <<3, 2>>, <<4, 4>>, <<6, 1>>, <<1, 5>>}
PointSets == << <<0, 0, 0, 0, 0>>, <<1, -3, 8, 5, -2>>, <<8000, -64, 3, 1, 40>>, <<-9, 16, -800, 7, 24>>, <<8, 8, 8, 8, 8>> >>
C(i, j) == ((3 * i + 5 * j) % 7) - 3
Q(lin, i, j) == IF lin THEN 0 ELSE ((i + 2 * j) % 3) - 1
Cross(lin, n, i) == IF lin \/ n < 2 THEN 0 ELSE i % 2
(* 64 * f_i(X/8) *)
F64(lin, m, n, X, i) ==
    LET S[j \in 0..n] == IF j = 0 THEN 0 ELSE S[j - 1] + 8 * C(i, j) * X[j] + Q(lin, i, j) * X[j] * X[j]
    IN  S[n] + Cross(lin, n, i) * X[1] * X[n]
(* 8 * J_ij *)
J8(lin, n, X, i, j) == 8 * C(i, j) + 2 * Q(lin, i, j) * X[j]
                       + (IF j = 1 THEN Cross(lin, n, i) * X[n] ELSE 0) + (IF j = n /\ n >= 2 THEN Cross(lin, n, i) * X[1] ELSE 0)
Shift(X, j, d) == [k \in DOMAIN X |-> IF k = j THEN X[k] + d ELSE X[k]]
VARIABLES sz, ps, lin
vars == <<sz, ps, lin>>
Init == sz \in Sizes /\ ps \in 1..Len(PointSets) /\ lin \in BOOLEAN
Next == FALSE /\ UNCHANGED vars
Spec == Init /\ [][Next]_vars
X0 == [j \in 1..sz[2] |-> PointSets[ps][j]]
(* central difference with step 8 (one unit in x) is exact for a quadratic: (f(x+1) - f(x-1)) / 2 = J *)
JacobianIsDerivative ==
    \A i \in 1..sz[1] : \A j \in 1..sz[2] :
        F64(lin, sz[1], sz[2], Shift(X0, j, 8), i) - F64(lin, sz[1], sz[2], Shift(X0, j, -8), i) = 2 * 8 * J8(lin, sz[2], X0, i, j)
GenOut == [cases |-> SetToSeq({[m |-> s[1], n |-> s[2], lin |-> l, X |-> [j \in 1..s[2] |-> PointSets[p][j]],
                                 J8 |-> [i \in 1..s[1] |-> [j \in 1..s[2] |-> J8(l, s[2], [k \in 1..s[2] |-> PointSets[p][k]], i, j)]]]
                                : s \in Sizes, p \in 1..Len(PointSets), l \in BOOLEAN})]
ASSUME IF "VF_OUT" \in DOMAIN IOEnv THEN JsonSerialize(IOEnv.VF_OUT, GenOut) ELSE TRUE
=============================================================================
