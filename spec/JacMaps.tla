-------------------------------- MODULE JacMaps -------------------------------
(* Polynomial maps f: R^n -> R^m with integer coefficients and their exact Jacobians  *)
(* at points with coordinates in eighths (C16).                                       *)
(*   f_i(x) = SUM_j c_ij x_j + SUM_j q_ij x_j^2 + (i mod 2) x_1 x_n   (cross term n>=2) *)
(*   c_ij = ((3 i + 5 j) mod 7) - 3,   q_ij = LIN ? 0 : ((i + 2 j) mod 3) - 1            *)
(* 8 * J_ij = 8 c_ij + 2 q_ij X_j + cross,  X = 8 x.  TLC checks J against finite        *)
(* differences in exact integer arithmetic (the quadratic has an exact central           *)
(* difference) and writes the cases.                                                     *)
EXTENDS Integers, Sequences, FiniteSets, TLC, Json, IOUtils, SequencesExt
Sizes == {<<1, 1>>, <<2, 3>>, <<3, 2>>, <<4, 4>>, <<6, 1>>, <<1, 5>>}
PointSets == << <<0, 0, 0, 0, 0>>, <<1, -3, 8, 5, -2>>, <<8000, -64, 3, 1, 40>>, <<-9, 16, -800, 7, 24>>, <<8, 8, 8, 8, 8>> >>
C(i, j) == ((3 * i + 5 * j) % 7) - 3
Q(lin, i, j) == IF lin THEN 0 ELSE ((i + 2 * j) % 3) - 1
Cross(lin, n, i) == IF lin \/ n < 2 THEN 0 ELSE i % 2
(* 64 * f_i(X/8) *)
F64(lin, m, n, X, i) ==
    LET S[j \in 0..n] == IF j = 0 THEN 0 ELSE S[j - 1] + 8 * C(i, j) * X[j] + Q(lin, i, j) * X[j] * X[j]
    IN  S[n] + Cross(lin, n, i) * X[1] * X[n]
(* 8 * J_ij *)
J8(lin, n, X, i, j) == 8 * C(i, j) + 2 * Q(lin, i, j) * X[j]
                       + (IF j = 1 THEN Cross(lin, n, i) * X[n] ELSE 0) + (IF j = n /\ n >= 2 THEN Cross(lin, n, i) * X[1] ELSE 0)
Shift(X, j, d) == [k \in DOMAIN X |-> IF k = j THEN X[k] + d ELSE X[k]]
VARIABLES sz, ps, lin
vars == <<sz, ps, lin>>
Init == sz \in Sizes /\ ps \in 1..Len(PointSets) /\ lin \in BOOLEAN
Next == FALSE /\ UNCHANGED vars
Spec == Init /\ [][Next]_vars
X0 == [j \in 1..sz[2] |-> PointSets[ps][j]]
(* central difference with step 8 (one unit in x) is exact for a quadratic: (f(x+1) - f(x-1)) / 2 = J *)
JacobianIsDerivative ==
    \A i \in 1..sz[1] : \A j \in 1..sz[2] :
        F64(lin, sz[1], sz[2], Shift(X0, j, 8), i) - F64(lin, sz[1], sz[2], Shift(X0, j, -8), i) = 2 * 8 * J8(lin, sz[2], X0, i, j)
(* A second family with components of very different magnitude (C16: "points incl. small and large components"): component j       *)
(* enters as x_j / w_j with w_j = max(1, |x_j|) at the point (so every term is moderate whatever the magnitude of x_j), the last        *)
(* component enters through its fifth power as well, so that a finite-difference step that is too long for it shows as truncation:      *)
(*   g_i(x) = SUM_j c_ij x_j / w_j + s_i x_n^5,  s_i = (i mod 3) - 1                                                                   *)
(*   dg_i/dx_j = c_ij / w_j  (+ 5 s_i x_n^4 for j = n)                                                                                *)
(* X in eighths; the Jacobian entry is the exact rational <<num, den>> = <<4096 c_ij * 8 + [j = n] 5 s_i X_n^4 W_j, 4096 * 8 * ... >>:  *)
(* with W_j = max(8, |X_j|) (eighths):  J_ij = 8 c_ij / W_j + [j = n] 5 s_i X_n^4 / 4096 = (8 c_ij * 4096 + [j = n] 5 s_i X_n^4 W_j) / (4096 W_j)  *)
QSizes == {<<2, 2>>, <<3, 3>>, <<2, 4>>}
Big == 268435456          \* 2^28 eighths = 2^25
QPoints == << <<Big, 3, -5, 4>>, <<-Big, 16, 2, -6>>, <<Big, Big, 1, 5>>, <<40, -24, 9, 4>> >>
SQ(i) == (i % 3) - 1
AbsI(x) == IF x < 0 THEN -x ELSE x
W(x) == IF AbsI(x) > 8 THEN AbsI(x) ELSE 8
QX(n, p) == [j \in 1..n |-> IF j = n THEN QPoints[p][4] ELSE QPoints[p][j]]
(* numerators are computed without overflowing 32 bits: the moderate last component has W = 8 *)
JNum(n, X, i, j) == IF j = n THEN 8 * C(i, j) * 4096 + 5 * SQ(i) * X[n] * X[n] * X[n] * X[n] * W(X[n]) ELSE 8 * C(i, j)
JDen(n, X, i, j) == IF j = n THEN 4096 * W(X[n]) ELSE W(X[j])
(* the derivative of the fifth power, checked through the exact identity (x+h)^5 - (x-h)^5 = 2h (5x^4 + 10 x^2 h^2 + h^4) *)
P5(x) == x * x * x * x * x
QuinticDerivativeIdentity ==
    \A x \in -12..12 : \A h \in 1..3 : P5(x + h) - P5(x - h) = 2 * h * (5 * x * x * x * x + 10 * x * x * h * h + h * h * h * h)
QCases == SetToSeq({[m |-> s[1], n |-> s[2], X |-> QX(s[2], p), W |-> [j \in 1..s[2] |-> W(QX(s[2], p)[j])],
                     JNum |-> [i \in 1..s[1] |-> [j \in 1..s[2] |-> JNum(s[2], QX(s[2], p), i, j)]],
                     JDen |-> [i \in 1..s[1] |-> [j \in 1..s[2] |-> JDen(s[2], QX(s[2], p), i, j)]]]
                    : s \in QSizes, p \in 1..Len(QPoints)})
GenOut == [qcases |-> QCases, cases |-> SetToSeq({[m |-> s[1], n |-> s[2], lin |-> l, X |-> [j \in 1..s[2] |-> PointSets[p][j]],
                                 J8 |-> [i \in 1..s[1] |-> [j \in 1..s[2] |-> J8(l, s[2], [k \in 1..s[2] |-> PointSets[p][k]], i, j)]]]
                                : s \in Sizes, p \in 1..Len(PointSets), l \in BOOLEAN})]
ASSUME IF "VF_OUT" \in DOMAIN IOEnv THEN JsonSerialize(IOEnv.VF_OUT, GenOut) ELSE TRUE
=============================================================================
