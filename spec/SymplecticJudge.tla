---------------------------- MODULE SymplecticJudge ---------------------------
(* Judge for C10.  Structure (exact functionals of the class tables): a splitting   *)
(* step is a composition of pure drifts and pure kicks (shears, hence symplectic for  *)
(* every separable Hamiltonian) whose coefficient sequences are palindromic           *)
(* (time-reversible) and sum to one; a Runge-Kutta method flagged symplectic          *)
(* satisfies b_i a_ij + b_j a_ji = b_i b_j.  Observations on real steps: the           *)
(* symplectic defect of the one-step map, the round trip h, -h, the energy error       *)
(* over a long fixed-step run.                                                        *)
EXTENDS Integers, Sequences, FiniteSets, TLC, Json, IOUtils, Bounds
In == JsonDeserialize(IOEnv.VF_IN)
Cases == In.cases
VARIABLES i, bad
vars == <<i, bad>>
V(o, cl) == [id |-> o.id, clause |-> cl]
Palindrome(s) == \A k \in 1..Len(s) : s[k] = s[Len(s) + 1 - k]
CheckCase(o) ==
    CASE o.kind = "structure-split" ->
            (IF Palindrome(o.driftIds) /\ Palindrome(o.kickIds) THEN {} ELSE {V(o, "C10.CoefficientSequencePalindromic")})
            \cup (IF o.driftSumUnits <= 8 /\ o.kickSumUnits <= 8 THEN {} ELSE {V(o, "C10.CoefficientsSumToOne")})
            \cup (IF \A k \in 1..Len(o.driftIds) : o.driftIds[k] = 0 \/ o.kickIds[k] = 0 THEN {} ELSE {V(o, "C10.SubStepsArePureDriftOrKick")})
      [] o.kind = "structure-rk" ->
            (IF o.mUnits <= 8 THEN {} ELSE {V(o, "C10.SymplecticityConditionOfTheTable")})
      [] o.kind = "map" ->
            (IF ~o.observed THEN {V(o, "C10.StepObserved")} ELSE
             (IF o.linear /\ o.sympUnits > SympLinUnits * o.stages THEN {V(o, "C10.OneStepMapSymplectic")} ELSE {})
             \cup (IF ~o.linear /\ o.sympClass > SympFdClass THEN {V(o, "C10.OneStepMapSymplectic")} ELSE {})
             \cup (IF o.split /\ o.revUnits > ReverseUnits * o.stages THEN {V(o, "C10.TimeReversible")} ELSE {})
             \cup (IF ~o.split /\ o.revTolUnits > ReverseTolUnits THEN {V(o, "C10.TimeReversible")} ELSE {})
             \cup (IF o.maskOk THEN {} ELSE {V(o, "C10.KickMaskHonoured")}))
      [] o.kind = "energy" ->
            (IF ~o.observed THEN {V(o, "C10.RunCompletes")} ELSE
             IF o.growth > EnergyGrowth THEN {V(o, "C10.EnergyErrorBounded")} ELSE {})
      [] o.kind = "coarse" ->       \* a step handed back shorter than requested is the method's map of the size it reports
            (IF o.shortTolUnits > 1 THEN {V(o, "C10.AcceptedStepIsTheMapOfItsOwnSize")} ELSE {})
      [] OTHER -> {V(o, "C10.UnknownCase")}
Init == i = 1 /\ bad = {}
Next == /\ i <= Len(Cases)
        /\ bad' = bad \cup CheckCase(Cases[i])
        /\ i' = i + 1
Spec == Init /\ [][Next]_vars
Emit == (i = Len(Cases) + 1) => JsonSerialize(IOEnv.VF_OUT, [n |-> Len(Cases), bad |-> bad])
=============================================================================
