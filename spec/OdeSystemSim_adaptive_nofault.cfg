CONSTANTS
  T0S <- SimT0S
  TFS <- SimTFS
  DTS <- SimDTS
  TARGETS <- SimTARGETS
  ADAPTIVE = TRUE
  ROOTS <- SimRoots
  DENSE = TRUE
  MAXCALLS = 3
  MAXROWS = 14
  FAULTS = FALSE
  CBDTS <- Cb1
  Dev <- DevCode
SPECIFICATION SimSpec
CONSTRAINT SimConstraint
INVARIANT EmitLog
CHECK_DEADLOCK FALSE
