SPECIFICATION Spec
INVARIANT IntermediateValue
INVARIANT NoChangeEvenCount
CHECK_DEADLOCK FALSE
