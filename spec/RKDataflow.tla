------------------------------ MODULE RKDataflow -----------------------------
(* Stage dataflow of one Runge-Kutta step as a protocol over slope SYMBOLS (C02).    *)
(*                                                                                   *)
(* The right-hand side is scripted to ignore its arguments and to return the unit     *)
(* vector e_k on its k-th call, the step starts at t = 0, y = 0 with h = +-1.  Then   *)
(* every floating point operation of the stage loop is exact and the state handed to  *)
(* the k-th call IS the row of coefficients the implementation used, its time argument *)
(* is the node it used and the returned increment is the weight vector it used.        *)
(* Floats are interned (equal id <=> equal value); id 0 is the number 0; neg[id] is    *)
(* the id of the negated number.                                                       *)
(*                                                                                   *)
(* Reference protocol for an explicit method with s stages, called twice in a row:     *)
(*   step 1:  InitialSlope(t=0, y=0); Stage(i), i = 1..s, at node c_i with state        *)
(*            SUM_j a_ij * slope(stage j of this step); unless the method is            *)
(*            first-same-as-last, FinalSlope at node 1 with state SUM_i b_i slope_i.    *)
(*   step 2:  no initial slope (the cached end slope is reused); stages and final       *)
(*            slope as before, the state being increment(step 1) + own contributions.   *)
(* A case carries the observed calls [t, y] (y as a sequence of ids over all slots),    *)
(* the two increments, the error estimate of step 1 and the tableau ids.               *)
EXTENDS Integers, Sequences, FiniteSets, TLC, Json, IOUtils
In == JsonDeserialize(IOEnv.VF_IN)
Cases == In.cases
VARIABLES i, bad
vars == <<i, bad>>
V(o, cl, k) == [id |-> o.id, clause |-> cl, k |-> k]

Sgn(o, x) == IF o.hneg /\ x # 0 THEN o.neg[x] ELSE x          \* multiply an interned number by the sign of h
PerStep(o) == IF o.fsal THEN o.s ELSE o.s + 1                   \* right-hand-side calls per step after the initial slope
Slot(o, step, st) == 1 + (step - 1) * PerStep(o) + st           \* call index of stage st of the step (st = s + 1: final slope)
NCalls(o) == 1 + 2 * PerStep(o)

(* expected state handed to call k, as a function over the slots *)
Increment1(o) == [q \in 1..o.dim |-> IF \E st \in 1..o.s : q = Slot(o, 1, st) THEN Sgn(o, o.b[q - 1]) ELSE 0]
ExpectedY(o, k) ==
    IF k = 1 THEN [q \in 1..o.dim |-> 0]
    ELSE LET step == IF k <= 1 + PerStep(o) THEN 1 ELSE 2
             st == k - 1 - (step - 1) * PerStep(o)
             base == IF step = 1 THEN [q \in 1..o.dim |-> 0] ELSE Increment1(o)
             row == IF st <= o.s THEN o.A[st] ELSE o.b
         IN  [q \in 1..o.dim |->
                 IF \E j \in 1..o.s : q = Slot(o, step, j)
                 THEN Sgn(o, row[q - Slot(o, step, 0)])
                 ELSE base[q]]
(* expected time of call k in units of h, as an id *)
ExpectedT(o, k) ==
    IF k = 1 THEN 0
    ELSE LET step == IF k <= 1 + PerStep(o) THEN 1 ELSE 2
             st == k - 1 - (step - 1) * PerStep(o)
             node == IF st <= o.s THEN o.c[st] ELSE o.one
         IN  IF step = 1 THEN Sgn(o, node) ELSE o.t2[st]       \* t2: h + h*c_i evaluated exactly by the sensor and interned
ExpectedInc(o, step) == [q \in 1..o.dim |-> IF \E st \in 1..o.s : q = Slot(o, step, st) THEN Sgn(o, o.b[q - Slot(o, step, 0)]) ELSE 0]
ExpectedErr(o) == [q \in 1..o.dim |-> IF \E st \in 1..o.s : q = Slot(o, 1, st) THEN o.dbSigned[q - 1] ELSE 0]

CheckCase(o) ==
    (IF Len(o.calls) = NCalls(o) THEN {} ELSE {V(o, "C02.NumberOfSlopeEvaluations", Len(o.calls))})
    \cup {V(o, "C02.StageStateIsWeightedSlopes", k) : k \in {k \in 1..Len(o.calls) : k <= NCalls(o) /\ o.calls[k].y # ExpectedY(o, k)}}
    \cup {V(o, "C02.StageTimeIsNode", k) : k \in {k \in 1..Len(o.calls) : k <= NCalls(o) /\ o.calls[k].t # ExpectedT(o, k)}}
    \cup (IF o.inc1 = ExpectedInc(o, 1) THEN {} ELSE {V(o, "C02.IncrementIsWeightedSlopes", 1)})
    \cup (IF o.inc2 = ExpectedInc(o, 2) THEN {} ELSE {V(o, "C02.IncrementIsWeightedSlopes", 2)})
    \cup (IF o.hasErr /\ o.err1 # ExpectedErr(o) THEN {V(o, "C02.ErrorEstimateIsWeightDifference", 1)} ELSE {})
    \cup (IF o.dT1ok /\ o.dT2ok THEN {} ELSE {V(o, "C02.StepTakenIsStepRequested", 0)})
Init == i = 1 /\ bad = {}
Next == /\ i <= Len(Cases)
        /\ bad' = bad \cup CheckCase(Cases[i])
        /\ i' = i + 1
Spec == Init /\ [][Next]_vars
Emit == (i = Len(Cases) + 1) => JsonSerialize(IOEnv.VF_OUT, [n |-> Len(Cases), bad |-> bad])
=============================================================================
