------------------------------- MODULE SystemApi ------------------------------
(* Design model over ApiModel: TLC explores every operation sequence up to MAXLEN and    *)
(* checks the invariants; with $VF_OUT it writes every sequence up to GENLEN with the      *)
(* expected outcome and projected state after each operation (spec -> code replay).        *)
EXTENDS ApiModel
CONSTANTS MAXLEN
(* generator: every operation sequence up to GENLEN with the expected outcome and state after each operation *)
CONSTANT GENLEN
RECURSIVE Seqs(_)
Seqs(n) == IF n = 0 THEN {<< >>} ELSE LET P == Seqs(n - 1) IN P \cup {Append(h, o) : h \in {x \in P : Len(x) = n - 1}, o \in Ops}
RECURSIVE RunSeq(_, _, _)
RunSeq(h, k, s) == IF k > Len(h) THEN << >>
                   ELSE LET r == Apply(s, h[k]) IN <<[out |-> r[2], st |-> Project(r[1])]>> \o RunSeq(h, k + 1, r[1])
GenOut == [histories |-> SetToSeq({[ops |-> h, expect |-> RunSeq(h, 1, Init0)] : h \in {x \in Seqs(GENLEN) : Len(x) >= 1}})]
ASSUME IF "VF_OUT" \in DOMAIN IOEnv THEN JsonSerialize(IOEnv.VF_OUT, GenOut) ELSE TRUE

VARIABLES st, hist, outs
vars == <<st, hist, outs>>
Init == st = Init0 /\ hist = << >> /\ outs = << >>
Next == /\ Len(hist) < MAXLEN
        /\ \E o \in Ops :
             LET r == Apply(st, o) IN
             /\ st' = r[1] /\ hist' = Append(hist, o) /\ outs' = Append(outs, r[2])
Spec == Init /\ [][Next]_vars
SpanNeverDegenerate == st.t0 # st.tf
StepPointsAlongTheSpan == st.dtSign = {Sgn(st.tf - st.t0)} \/ st.moved
StepNeverZero == 0 \notin st.dtSign
FailedOperationChangesNothing == [][Last(outs') # "ok" => st' = st]_vars
StatusOnlyByRunOrReset == (st.status = "done") => st.moved
=============================================================================
