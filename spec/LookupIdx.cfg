CONSTANTS G = 7  MaxLen = 5
SPECIFICATION Spec
INVARIANT IndexTotal
INVARIANT NearestWellDefined
INVARIANT NearestMirror
CHECK_DEADLOCK FALSE
