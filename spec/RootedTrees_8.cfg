CONSTANT P = 8
SPECIFICATION Spec
INVARIANT TreeCounts
INVARIANT ChildrenAreEarlier
INVARIANT Canonical
INVARIANT NoDuplicates
INVARIANT OrderIsVertexCount
INVARIANT GammaExtremes
INVARIANT Emit
CHECK_DEADLOCK FALSE
