CONSTANTS ADAPTIVE = FALSE  IMPLICIT = FALSE  RETRIES = 3
  HS <- MCHS
  Dev <- NoDev
SPECIFICATION Spec
INVARIANT NeverReturnRejectedOrUnconverged
INVARIANT RetryShrinks
INVARIANT FixedExplicitTakesRequestedStep
INVARIANT SlopeCacheConsistent
INVARIANT BoundedAttempts
CHECK_DEADLOCK FALSE
