------------------------------ MODULE DenseModel ------------------------------
(* Growth beyond the listed properties: the public DenseOutput container as a state   *)
(* machine - construction from lists, add_interpolant, remove_interpolant, scalar and    *)
(* array evaluation, len, t_min / t_max - with the reference effect DApply(state, op).     *)
(* Times are ticks.  A piece is [a, b, id]; the real pieces are the lines y = 100 id + t,     *)
(* so the value of an evaluation identifies the piece that answered it.                      *)
(*                                                                                          *)
(* Dev names the deliberate deviations of the CODE from the design (CodeDev is what the      *)
(* real class does; with Dev = {} the invariants of DenseApi.tla hold):                      *)
(*   ctorStoresStart    : DenseOutput(times, pieces) keeps all N+1 times, add_interpolant     *)
(*                        keeps end times only; lookup assumes end times only, so an object    *)
(*                        built by the constructor answers from the NEXT piece                 *)
(*   boundsFromRawCache : t_min / t_max read the stacked-array cache without refreshing it     *)
(*                        (stale after add_interpolant, None before the first refresh) and      *)
(*                        never include the start of the first piece                            *)
(*   bisectAfterTurn    : (the code before repair 654424a; no longer in CodeDev) the lookup      *)
(*                        trusts the bisection over the end times even when the pieces run in     *)
(*                        both directions of time, i.e. after integrate() calls that turned round  *)
(* The lookup is the real one: BisS / BisV transcribe search_bisection / search_bisection_vec      *)
(* (they differ in >= / > at the midpoint and in the early exits, which matters exactly when the    *)
(* end times are not ordered); once pieces of both orientations are stored the most recent piece     *)
(* containing the query answers, and only a query no piece contains falls back to the bisection.     *)
EXTENDS Integers, Sequences, FiniteSets, TLC
CONSTANT Dev
DevNames == {"ctorStoresStart", "boundsFromRawCache", "bisectAfterTurn"}
CodeDev == {"ctorStoresStart", "boundsFromRawCache"}
None == -99
Last(q) == q[Len(q)]
Front(q) == SubSeq(q, 1, Len(q) - 1)
Tail1(q) == SubSeq(q, 2, Len(q))
SeqMin(q) == CHOOSE x \in {q[i] : i \in 1..Len(q)} : \A j \in 1..Len(q) : x <= q[j]
SeqMax(q) == CHOOSE x \in {q[i] : i \in 1..Len(q)} : \A j \in 1..Len(q) : x >= q[j]
(* search_bisection(array, val), 0-based result: on a strictly increasing array the first index whose element is >= val, *)
(* clipped to the last index (the contract of C17); on any other array whatever the loop below returns                      *)
BisS(arr, v) ==
    LET n == Len(arr)
        RECURSIVE Loop(_, _)
        Loop(lo, hi) == IF hi - lo > 1 THEN LET mid == (hi + lo) \div 2 IN IF v >= arr[mid + 1] THEN Loop(mid, hi) ELSE Loop(lo, mid)
                        ELSE IF arr[lo + 1] < v THEN hi ELSE lo
    IN IF v <= arr[1] THEN 0 ELSE IF v >= arr[n] THEN n - 1 ELSE Loop(0, n - 1)
(* search_bisection_vec, one component *)
BisV(arr, v) ==
    LET n == Len(arr)
        RECURSIVE Loop(_, _)
        Loop(lo, hi) == IF hi - lo > 1 THEN LET mid == (hi + lo) \div 2 IN IF v > arr[mid + 1] THEN Loop(mid, hi) ELSE Loop(lo, mid)
                        ELSE IF arr[lo + 1] < v THEN hi ELSE lo
    IN Loop(0, n - 1)
Contains(p, q) == (p.a <= q /\ q <= p.b) \/ (p.b <= q /\ q <= p.a)
(* pieces of both orientations are stored: some integrate() call ran against an earlier one *)
Turned(ps) == (\E i \in 1..Len(ps) : ps[i].b > ps[i].a) /\ (\E i \in 1..Len(ps) : ps[i].b < ps[i].a)
LatestContaining(ps, q) == CHOOSE i \in 1..Len(ps) : Contains(ps[i], q) /\ \A j \in (i + 1)..Len(ps) : ~Contains(ps[j], q)
Neg(q) == [i \in 1..Len(q) |-> -q[i]]
Min2(a, b) == IF a < b THEN a ELSE b

(* has: t_eval is a list (FALSE: None); ts: stored times; ps: pieces; start: where the first piece begins (design only);     *)
(* cache: the stacked array (<<>> with cacheNone = TRUE: None); stale: the cache must be rebuilt before use; nid: next piece id *)
Empty == [has |-> FALSE, ts |-> << >>, ps |-> << >>, start |-> None, cache |-> << >>, cacheNone |-> TRUE, stale |-> FALSE, nid |-> 1]
Ok(v) == [kind |-> "ok", val |-> v]
Err(e) == [kind |-> e, val |-> None]      \* kinds: "ValueError" (the documented "no interpolant has been added") and "error" (any other exception)
Refreshed(s) == IF s.stale THEN [s EXCEPT !.cache = s.ts, !.cacheNone = FALSE, !.stale = FALSE] ELSE s
Lookup(s, q, viaCache) ==       \* <<state after (cache refresh), outcome>>
    IF ~s.has THEN <<s, Err("ValueError")>>
    ELSE LET backward == Len(s.ts) > 1 /\ Last(s.ts) < s.ts[1]
             s1 == IF viaCache \/ backward THEN Refreshed(s) ELSE s
             k == IF Len(s.ts) = 0 THEN 0
                  ELSE IF viaCache THEN (IF backward THEN BisV(Neg(s.ts), -q) ELSE BisV(s.ts, q))
                  ELSE (IF backward THEN BisS(Neg(s.ts), -q) ELSE BisS(s.ts, q))
             idx == Min2(k, Len(s.ps) - 1)
             byBisection == (IF idx < 0 THEN Len(s.ps) + idx ELSE idx) + 1
             turn == "bisectAfterTurn" \notin Dev /\ Turned(s.ps) /\ \E i \in 1..Len(s.ps) : Contains(s.ps[i], q)
         IN  IF Len(s.ps) = 0 \/ Len(s.ts) = 0 THEN <<s1, Err("error")>>
             ELSE <<s1, Ok(s.ps[IF turn THEN LatestContaining(s.ps, q) ELSE byBisection].id)>>
DApply(s, o) ==
    CASE o.op = "new" -> <<Empty, Ok(0)>>
      [] o.op = "ctor" ->        \* o.times: N+1 ticks, strictly monotone; pieces [times[i], times[i+1]]
            LET n == Len(o.times) - 1
                pcs == [i \in 1..n |-> [a |-> o.times[i], b |-> o.times[i + 1], id |-> i]]
                kept == IF "ctorStoresStart" \in Dev THEN o.times ELSE Tail1(o.times)
            IN <<[has |-> TRUE, ts |-> kept, ps |-> pcs, start |-> o.times[1], cache |-> kept, cacheNone |-> FALSE, stale |-> FALSE, nid |-> n + 1], Ok(0)>>
      [] o.op = "add" ->         \* a piece from the last stored time (or o.a when there is none) to o.b
            LET a == IF s.has /\ Len(s.ts) > 0 THEN Last(s.ts) ELSE o.a
                p == [a |-> a, b |-> o.b, id |-> s.nid]
            IN IF s.has /\ Len(s.ts) > 0
               THEN <<[s EXCEPT !.ts = Append(@, o.b), !.ps = Append(@, p), !.stale = TRUE, !.nid = @ + 1], Ok(0)>>
               ELSE <<[s EXCEPT !.has = TRUE, !.ts = <<o.b>>, !.ps = <<p>>, !.start = a, !.stale = TRUE, !.nid = @ + 1], Ok(0)>>
      [] o.op = "remove" ->      \* o.i = 0 (first) or -1 (last): pops the stored time AND the piece at that index
            IF ~s.has THEN <<s, Err("error")>>
            ELSE IF Len(s.ts) = 0 THEN <<s, Err("error")>>
            ELSE IF Len(s.ps) = 0       \* only reachable under ctorStoresStart: the time is popped before the missing piece raises
                 THEN <<[s EXCEPT !.ts = IF o.i = 0 THEN Tail1(s.ts) ELSE Front(s.ts)], Err("error")>>
            ELSE LET ts1 == IF o.i = 0 THEN Tail1(s.ts) ELSE Front(s.ts)
                     ps1 == IF o.i = 0 THEN Tail1(s.ps) ELSE Front(s.ps)
                     gone == IF o.i = 0 THEN s.ps[1] ELSE Last(s.ps)
                 IN <<[s EXCEPT !.ts = ts1, !.ps = ps1, !.stale = FALSE,
                                !.start = IF o.i = 0 /\ Len(ps1) > 0 THEN ps1[1].a ELSE @,
                                !.cache = IF Len(ts1) > 0 THEN ts1 ELSE @, !.cacheNone = IF Len(ts1) > 0 THEN FALSE ELSE @], Ok(gone.id)>>
      [] o.op = "eval" -> Lookup(s, o.q, FALSE)
      [] o.op = "evalv" -> Lookup(s, o.q, TRUE)
      [] o.op = "len" -> <<s, Ok(IF s.has THEN Len(s.ts) ELSE 0)>>
      [] o.op \in {"tmin", "tmax"} ->
            IF "boundsFromRawCache" \in Dev
            THEN <<s, IF s.cacheNone THEN Ok(None) ELSE Ok(IF o.op = "tmin" THEN SeqMin(s.cache) ELSE SeqMax(s.cache))>>
            ELSE IF ~s.has \/ Len(s.ts) = 0 THEN <<s, Ok(None)>>
                 ELSE LET all == <<s.start>> \o s.ts IN <<Refreshed(s), Ok(IF o.op = "tmin" THEN SeqMin(all) ELSE SeqMax(all))>>
=============================================================================
