CONSTANTS MAXLEN = 1  GENLEN = 3
  Dev <- DevCode
SPECIFICATION Spec
CHECK_DEADLOCK FALSE
