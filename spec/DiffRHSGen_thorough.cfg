CONSTANT MAXLEN = 5
SPECIFICATION Spec
INVARIANT Emit
CHECK_DEADLOCK FALSE
