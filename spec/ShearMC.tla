---- MODULE ShearMC ----
EXTENDS Shear
MCCS == {-1, 0, 1, 2}
====
