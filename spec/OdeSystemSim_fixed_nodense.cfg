CONSTANTS
  T0S <- SimT0S
  TFS <- SimTFS
  DTS <- SimDTS
  TARGETS <- SimTARGETS
  ADAPTIVE = FALSE
  ROOTS <- SimRoots
  DENSE = FALSE
  MAXCALLS = 3
  MAXROWS = 14
  FAULTS = TRUE
  CBDTS <- Cb1
  Dev <- DevCode
SPECIFICATION SimSpec
CONSTRAINT StateConstraint
INVARIANT EmitLog
CHECK_DEADLOCK FALSE
