---- MODULE RichardsonMC ----
EXTENDS Richardson
NoDev == {}
DevIgnores == {"divisorIgnoresBaseOrder"}
DevRow == {"divisorUsesRow"}
====
