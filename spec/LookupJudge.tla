---------------------------- MODULE LookupJudge -----------------------------
(* Judge for C17 (bisection part): every observation is one array, one       *)
(* variant (function, dtype, container, affine map) and the results the real *)
(* code returned for all queries.  One state per observation.  At the end    *)
(* the judge also decides whether the enumeration was complete: for every    *)
(* variant the observed arrays are exactly LookupAlg!Arrays and the queries   *)
(* of each observation are exactly the refined grid.                         *)
EXTENDS Lookup, TLC, Json, IOUtils
CONSTANTS G, MaxLen

GridPts == {2 * k : k \in 0..(G - 1)}
Arrays == {SortedSeq(S) : S \in {T \in SUBSET GridPts : Cardinality(T) >= 1 /\ Cardinality(T) <= MaxLen}}
Queries == (-2)..(2 * G)

In == JsonDeserialize(IOEnv.VF_IN)
Cases == In.cases
Range(s) == {s[k] : k \in 1..Len(s)}

VARIABLES i, bad
vars == <<i, bad>>

CheckCase(o) ==
    {[id |-> o.id, clause |-> "C17.Bisect.result", q |-> o.qs[k], got |-> o.res[k], want |-> Bisect(o.a, o.qs[k])]
        : k \in {k \in 1..Len(o.qs) : o.res[k] # Bisect(o.a, o.qs[k])}}
    \cup (IF StrictlyIncreasing(o.a) THEN {} ELSE {[id |-> o.id, clause |-> "C17.Bisect.precondition", q |-> 0, got |-> 0, want |-> 0]})
    \cup (IF Len(o.res) = Len(o.qs) THEN {} ELSE {[id |-> o.id, clause |-> "C17.Bisect.shape", q |-> 0, got |-> Len(o.res), want |-> Len(o.qs)]})

Coverage ==
    IF In.exhaustive
    THEN {[id |-> -1, clause |-> "C17.Bisect.coverage", q |-> 0, got |-> 0, want |-> 0] : v \in
            {v \in Range(In.variants) :
                \/ {Cases[k].a : k \in {k \in 1..Len(Cases) : Cases[k].variant = v}} # Arrays
                \/ \E k \in 1..Len(Cases) : Cases[k].variant = v /\ Range(Cases[k].qs) # Queries}}
    ELSE {}

Init == i = 1 /\ bad = {}
Next == /\ i <= Len(Cases)
        /\ bad' = bad \cup CheckCase(Cases[i])
        /\ i' = i + 1
Spec == Init /\ [][Next]_vars
Done == i = Len(Cases) + 1
Emit == Done => JsonSerialize(IOEnv.VF_OUT, [n |-> Len(Cases), bad |-> bad \cup Coverage])
=============================================================================
