---------------------------- MODULE LoopIndProof ------------------------------
(* The same inductive step as bin/extra loopind, discharged by the TLA+ proof system  *)
(* (tlapm, SMT back end) instead of Apalache: for the repaired loop (Deviant = FALSE)     *)
(* the invariant is preserved by every step, over all integers.  TLA+ is untyped, so the    *)
(* proof carries the type invariant that Apalache gets from its annotations.                 *)
EXTENDS LoopInd, TLAPS
ASSUME Repaired == Deviant = FALSE
TypeInv == cur \in Int /\ target \in Int /\ dt \in Int /\ start \in Int /\ prev \in Int
Inv == TypeInv /\ IndInv
THEOREM InitImpliesInv == Init => Inv
  BY DEF Init, Inv, TypeInv, IndInv, Between, Abs
THEOREM Inductive == Inv /\ Next => Inv'
<1> SUFFICES ASSUME Inv, Next PROVE Inv'
  OBVIOUS
<1> USE Repaired DEF Inv, TypeInv, IndInv, Between, Abs, Sgn, FixDir
<1>1. PICK dT \in Int, nd \in Int :
        LET d == FixDir(dt, target, cur)
            h == IF Abs(d) > Abs(target - cur) THEN target - cur ELSE d
        IN /\ dT # 0 /\ Sgn(dT) = Sgn(h) /\ Abs(dT) <= Abs(h) /\ nd # 0
           /\ cur' = cur + dT /\ prev' = cur /\ dt' = nd
  BY DEF Next
<1>2. cur # target /\ target' = target /\ start' = start
  BY DEF Next
<1> QED
  BY <1>1, <1>2, Z3T(120)
=============================================================================
