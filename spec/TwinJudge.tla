------------------------------ MODULE TwinJudge ------------------------------
(* Judge for twin executions of the real code (C04 shift / reflection, C13 reset *)
(* and split invariance, C12 resume): two runs that the design says are          *)
(* equivalent are compared.  A case carries                                      *)
(*   mode   "exact"     - the two observation sequences must be identical         *)
(*          "rounding"  - same number of steps, identical step sizes except the   *)
(*                        last, final states equal to rounding level              *)
(*          "tolerance" - final states equal to tolerance level                   *)
(*   seqA, seqB  jointly interned observation sequences (rows as <<tId, yId>>     *)
(*               flattened, or step-size ranks)                                   *)
(*   units       |yA - yB| in units of eps*max(1,|y|)  (max over components)      *)
(*   tolUnits    |yA - yB| in units of atol + rtol*|y| (max over components)      *)
(*   okA, okB    both runs completed                                              *)
EXTENDS Integers, Sequences, FiniteSets, TLC, Json, IOUtils, Bounds
In == JsonDeserialize(IOEnv.VF_IN)
Cases == In.cases
VARIABLES i, bad
vars == <<i, bad>>
V(o, cl) == [id |-> o.id, clause |-> o.clause \o "." \o cl]
AllButLastEqual(a, b) == Len(a) = Len(b) /\ \A k \in 1..(Len(a) - 1) : a[k] = b[k]
CheckCase(o) ==
    (IF o.okA = o.okB THEN {} ELSE {V(o, "BothRunsComplete")})
    \cup (IF ~(o.okA /\ o.okB) THEN {} ELSE
          CASE o.mode = "exact" ->
                  (IF o.seqA = o.seqB THEN {} ELSE {V(o, "Identical")})
            [] o.mode = "rounding" ->
                  (IF Len(o.seqA) = Len(o.seqB) THEN {} ELSE {V(o, "SameNumberOfSteps")})
                  \cup (IF Len(o.seqA) # Len(o.seqB) \/ AllButLastEqual(o.seqA, o.seqB) THEN {} ELSE {V(o, "SameStepSizes")})
                  \cup (IF o.units <= TwinRoundingUnitsPerStep * (Len(o.seqA) + 1) THEN {} ELSE {V(o, "StatesEqualToRounding")})
            [] o.mode = "tolerance" ->
                  (IF o.tolUnits <= TwinTolUnits THEN {} ELSE {V(o, "StatesEqualToTolerance")})
                  \* both runs kept dense output and end at the same time: their dense solutions agree at common probe times
                  \* (denseTolUnits = -1: not applicable)
                  \cup (IF o.denseTolUnits <= TwinTolUnits THEN {} ELSE {V(o, "DenseSolutionsEqualToTolerance")})
            [] OTHER -> {V(o, "UnknownMode")})
Init == i = 1 /\ bad = {}
Next == /\ i <= Len(Cases)
        /\ bad' = bad \cup CheckCase(Cases[i])
        /\ i' = i + 1
Spec == Init /\ [][Next]_vars
Emit == (i = Len(Cases) + 1) => JsonSerialize(IOEnv.VF_OUT, [n |-> Len(Cases), bad |-> bad])
=============================================================================
