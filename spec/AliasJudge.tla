------------------------------ MODULE AliasJudge ------------------------------
(* Growth: the table of method names.  Facts sensed on the real package: every          *)
(* integrator class with its own name and its declared alternative names, the table        *)
(* available_methods(False) (name -> class), the list available_methods(), and for every     *)
(* name the class of the integrator that OdeSystem.set_method(name) installs.                 *)
EXTENDS Integers, Sequences, FiniteSets, TLC, Json, IOUtils
In == JsonDeserialize(IOEnv.VF_IN)
Classes == In.classes            \* seq of [name, alts (seq of strings)]
Table == In.table                \* seq of [alias, cls]
Listed == In.listed              \* seq of strings
Installed == In.installed        \* seq of [alias, cls, outcome]
Rng(q) == {q[i] : i \in 1..Len(q)}
NamesOf(c) == {c.name} \cup Rng(c.alts)
TableMap(a) == {e.cls : e \in {x \in Rng(Table) : x.alias = a}}
Bad ==
    {[clause |-> "Aliases.EveryDeclaredNameResolvesToItsClass", what |-> n] : n \in UNION {{m \in NamesOf(c) : TableMap(m) # {c.name}} : c \in Rng(Classes)}}
    \cup {[clause |-> "Aliases.NoNameDeclaredByTwoClasses", what |-> n] :
             n \in {m \in UNION {NamesOf(c) : c \in Rng(Classes)} : Cardinality({c.name : c \in {d \in Rng(Classes) : m \in NamesOf(d)}}) > 1}}
    \cup {[clause |-> "Aliases.TableHasOnlyDeclaredNames", what |-> e.alias] : e \in {x \in Rng(Table) : ~\E c \in Rng(Classes) : c.name = x.cls /\ x.alias \in NamesOf(c)}}
    \cup {[clause |-> "Aliases.ListIsTheTable", what |-> n] : n \in (Rng(Listed) \ {e.alias : e \in Rng(Table)}) \cup ({e.alias : e \in Rng(Table)} \ Rng(Listed))}
    \cup {[clause |-> "Aliases.SetMethodInstallsThatClass", what |-> e.alias] : e \in {x \in Rng(Installed) : x.outcome # "ok" \/ TableMap(x.alias) # {x.cls}}}
VARIABLE done
Init == done = FALSE
Next == ~done /\ done' = TRUE
Spec == Init /\ [][Next]_done
Emit == done => JsonSerialize(IOEnv.VF_OUT, [n |-> Len(Table), bad |-> Bad])
=============================================================================
