------------------------------ MODULE Integrator ------------------------------
(* Call protocol of a Runge-Kutta integrator object (C02, C05, C11, C12): the        *)
(* cached end-of-step slope, attempts, the controller's verdict, the outcome of the   *)
(* stage solve of implicit methods, retries with a strictly smaller step, giving up.  *)
(* The environment chooses every verdict, so TLC explores every attempt history.      *)
(* Step sizes are positive integers (magnitudes); the sign is carried separately and  *)
(* never changes inside a call.                                                       *)
EXTENDS Integers, Sequences, FiniteSets, TLC
CONSTANTS ADAPTIVE, IMPLICIT, HS, RETRIES, Dev
DevNames == {"retryWithLargerStep", "acceptWhenRetriesExhausted", "fixedOverrideAfterNewtonCheck", "keepCacheOnFailure"}
ASSUME Dev \subseteq DevNames

VARIABLES pc,        \* "idle" | "attempted" | "returned" | "raised"
          at,        \* index of the recorded state the caller is at
          h,         \* step of the current attempt
          tries,     \* attempts made in this call
          hist,      \* sequence of attempt steps of this call
          verdict,   \* [redo, newton] of the last attempt
          cache,     \* what the cached end slope belongs to: "none" | <<"state", k>> | <<"attempt", k, n>>
          calls      \* number of calls made
vars == <<pc, at, h, tries, hist, verdict, cache, calls>>

NoCache == [kind |-> "none", k |-> 0, n |-> 0]
StateCache(k) == [kind |-> "state", k |-> k, n |-> 0]

Init == pc = "idle" /\ at = 0 /\ h = 0 /\ tries = 0 /\ hist = << >> /\ verdict = [redo |-> FALSE, newton |-> TRUE]
        /\ cache = NoCache /\ calls = 0

Verdicts == {[redo |-> r, newton |-> n] : r \in (IF ADAPTIVE THEN BOOLEAN ELSE {FALSE}), n \in (IF IMPLICIT THEN BOOLEAN ELSE {TRUE})}

Call(h0) ==
    /\ pc \in {"idle", "returned", "raised"} /\ calls < 3
    /\ calls' = calls + 1
    /\ h' = h0 /\ tries' = 0 /\ hist' = << >>
    /\ pc' = "calling"
    /\ UNCHANGED <<at, verdict, cache>>

Attempt ==
    /\ pc \in {"calling", "retry"}
    /\ \E v \in Verdicts :
        /\ verdict' = v
        /\ hist' = Append(hist, h)
        /\ tries' = tries + 1
        /\ cache' = [kind |-> "attempt", k |-> at, n |-> tries + 1]
        /\ pc' = "attempted"
    /\ UNCHANGED <<at, h, calls>>

MustRedo ==
    IF "fixedOverrideAfterNewtonCheck" \in Dev /\ ~ADAPTIVE /\ tries > 1
    THEN FALSE                                   \* the fixed-step override clears the flag after the Newton check
    ELSE verdict.redo \/ (IMPLICIT /\ ~verdict.newton)

Decide ==
    /\ pc = "attempted"
    /\ IF ~MustRedo
       THEN /\ pc' = "returned" /\ at' = at + 1 /\ cache' = StateCache(at + 1)
            /\ UNCHANGED <<h, tries, hist, verdict, calls>>
       ELSE IF tries <= RETRIES
            THEN /\ pc' = "retry"
                 /\ h' = IF "retryWithLargerStep" \in Dev THEN h + 1 ELSE (IF h > 1 THEN h - 1 ELSE h)
                 /\ (h > 1 \/ "retryWithLargerStep" \in Dev)      \* a step that cannot shrink any further gives up below
                 /\ UNCHANGED <<at, tries, hist, verdict, cache, calls>>
            ELSE IF "acceptWhenRetriesExhausted" \in Dev
                 THEN /\ pc' = "returned" /\ at' = at + 1 /\ cache' = StateCache(at + 1)
                      /\ UNCHANGED <<h, tries, hist, verdict, calls>>
                 ELSE /\ pc' = "raised"
                      /\ cache' = IF "keepCacheOnFailure" \in Dev THEN cache ELSE NoCache
                      /\ UNCHANGED <<at, h, tries, hist, verdict, calls>>

GiveUpSmall ==      \* the step cannot shrink any further
    /\ pc = "attempted" /\ MustRedo /\ tries <= RETRIES /\ h = 1 /\ "retryWithLargerStep" \notin Dev
    /\ pc' = "raised" /\ cache' = IF "keepCacheOnFailure" \in Dev THEN cache ELSE NoCache
    /\ UNCHANGED <<at, h, tries, hist, verdict, calls>>

Fault ==            \* a user callable raises during an attempt
    /\ pc \in {"calling", "retry", "attempted"}
    /\ pc' = "raised" /\ cache' = IF "keepCacheOnFailure" \in Dev THEN cache ELSE NoCache
    /\ UNCHANGED <<at, h, tries, hist, verdict, calls>>

Next == (\E h0 \in HS : Call(h0)) \/ Attempt \/ Decide \/ GiveUpSmall \/ Fault
Spec == Init /\ [][Next]_vars

(* C02 / C05: only an attempt the controller accepted, whose stage equations converged, is handed back *)
NeverReturnRejectedOrUnconverged == pc = "returned" => (~verdict.redo /\ verdict.newton)
(* C05: every retry uses a strictly smaller step *)
RetryShrinks == \A k \in 1..(Len(hist) - 1) : hist[k + 1] < hist[k]
(* C04: a method without error estimate and with converging stage equations takes exactly the requested step *)
FixedExplicitTakesRequestedStep == (pc = "returned" /\ ~ADAPTIVE /\ ~IMPLICIT) => (Len(hist) = 1)
(* C12 / C06: the cached slope always belongs to the state the caller is at (or is empty) when no call is in flight *)
SlopeCacheConsistent == pc \in {"idle", "returned", "raised"} => (cache = NoCache \/ cache = StateCache(at))
(* C05: the number of attempts is bounded, after which an error is raised *)
BoundedAttempts == tries <= RETRIES + 1
=============================================================================
