CONSTANTS MAXLEN = 3
  Dev = {}
SPECIFICATION Spec
INVARIANT Emit
INVARIANT SwitchingOffSwitchesOff
INVARIANT NoEstimatorNeverAdaptive
INVARIANT DefaultIsTheEstimator
CHECK_DEADLOCK FALSE
