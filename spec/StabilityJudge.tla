---------------------------- MODULE StabilityJudge ----------------------------
(* Judge for C11 (implicit methods are unconditionally stable on stiff decay).     *)
(* One case per lattice cell (method, |z| decade or spec cell, real / damped         *)
(* oscillatory block, sign of h): the outcome of ONE real integrator call on          *)
(* y' = L y with Re(spectrum) <= 0:                                                   *)
(*   outcome   "step" (a step was accepted, possibly shortened), "raised" (the        *)
(*             library raised its tolerance error - allowed, but not an observation),  *)
(*             "budget" (evaluation budget exhausted - not an observation), "error"    *)
(*   growTol   (|y1| - |y0|) / (10 tol |y0|) rounded up, 0 when |y1| <= |y0|            *)
(*   agree     |y1/y0 - R(z)| in units of 100 tol (-1 when the specification supplies  *)
(*             no R(z) for the cell), R(z) = num/den from spec/Stability.tla            *)
(*   tableOk   the class table equals the table of spec/Stability.tla                  *)
EXTENDS Integers, Sequences, FiniteSets, TLC, Json, IOUtils
In == JsonDeserialize(IOEnv.VF_IN)
Cases == In.cases
VARIABLES i, bad
vars == <<i, bad>>
V(o, cl) == [id |-> o.id, clause |-> cl]
CheckCase(o) ==
    (IF o.outcome = "step" /\ o.growTol > 1 THEN {V(o, "C11.AcceptedStepNeverGrows")} ELSE {})
    \cup (IF o.outcome = "step" /\ o.agree # -1 /\ o.agree > 1 THEN {V(o, "C11.AgreesWithStabilityFunction")} ELSE {})
    \cup (IF o.outcome = "step" /\ ~o.finite THEN {V(o, "C11.AcceptedStepFinite")} ELSE {})
    \cup (IF o.outcome = "error" THEN {V(o, "C11.CellRuns")} ELSE {})
    \cup (IF o.tableOk THEN {} ELSE {V(o, "C11.TableMatchesSpecification")})
    \cup (IF o.mustObserve /\ o.outcome # "step" THEN {V(o, "C11.ModerateCellObserved")} ELSE {})
Init == i = 1 /\ bad = {}
Next == /\ i <= Len(Cases)
        /\ bad' = bad \cup CheckCase(Cases[i])
        /\ i' = i + 1
Spec == Init /\ [][Next]_vars
Emit == (i = Len(Cases) + 1) => JsonSerialize(IOEnv.VF_OUT, [n |-> Len(Cases), bad |-> bad])
=============================================================================
