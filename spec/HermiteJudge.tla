---------------------------- MODULE HermiteJudge ----------------------------
(* Judge for C17 (Hermite part).  One observation per (variant, interval,     *)
(* point): for every cubic of the scope the observed error of value and        *)
(* gradient of the real CubicHermiteInterp against the specification's exact   *)
(* rational, in units of eps*scale (integers computed by the sensor with exact *)
(* rational arithmetic), plus bit-exactness flags at the two end points.       *)
EXTENDS Bounds, Sequences, FiniteSets, TLC, Json, IOUtils
In == JsonDeserialize(IOEnv.VF_IN)
Cases == In.cases
VARIABLES i, bad
vars == <<i, bad>>
V(o, cl, j, got) == [id |-> o.id, clause |-> cl, j |-> j, got |-> got]
CheckCase(o) ==
    {V(o, "C17.Hermite.value", j, o.vu[j]) : j \in {j \in 1..Len(o.vu) : o.vu[j] > HermiteUnits}}
    \cup {V(o, "C17.Hermite.gradient", j, o.gu[j]) : j \in {j \in 1..Len(o.gu) : o.gu[j] > HermiteUnits}}
    \cup (IF o.atEnd /\ ~o.endValExact THEN {V(o, "C17.Hermite.endValue", 0, 0)} ELSE {})
    \cup (IF o.atEnd /\ ~o.endGradExact THEN {V(o, "C17.Hermite.endSlope", 0, 0)} ELSE {})
    \cup (IF o.agree THEN {} ELSE {V(o, "C17.Hermite.scalarVsArray", 0, 0)})
Coverage == IF Cardinality({<<Cases[k].variant, Cases[k].t0, Cases[k].t1, Cases[k].k>> : k \in 1..Len(Cases)}) = In.expectedCases
            THEN {} ELSE {[id |-> -1, clause |-> "C17.Hermite.coverage", j |-> 0, got |-> Len(Cases)]}
Init == i = 1 /\ bad = {}
Next == /\ i <= Len(Cases)
        /\ bad' = bad \cup CheckCase(Cases[i])
        /\ i' = i + 1
Spec == Init /\ [][Next]_vars
Emit == (i = Len(Cases) + 1) => JsonSerialize(IOEnv.VF_OUT, [n |-> Len(Cases), bad |-> bad \cup Coverage])
=============================================================================
