---------------------------- MODULE DenseApiJudge -----------------------------
(* Trace validation for the DenseOutput container: each trace is the sequence of      *)
(* (operation, observed outcome) recorded from one real object.  The judge steps         *)
(* DenseModel!DApply - under the deviations the code is known to have (CodeDev) - along    *)
(* the recorded operations, one TLC state per call, and names every call whose outcome is   *)
(* not the reference's.  The state is not observed: it is inferred by the model.            *)
EXTENDS DenseModel, Json, IOUtils
In == JsonDeserialize(IOEnv.VF_IN)
Traces == In.traces
VARIABLES ti, k, s, bad
vars == <<ti, k, s, bad>>
V(tr, kk, cl) == [id |-> tr.id, step |-> kk, clause |-> cl]
Init == ti = 1 /\ k = 1 /\ s = Empty /\ bad = {}
Next == /\ ti <= Len(Traces)
        /\ LET tr == Traces[ti] IN
           IF k > Len(tr.steps) THEN ti' = ti + 1 /\ k' = 1 /\ s' = Empty /\ bad' = bad
           ELSE LET e == tr.steps[k] r == DApply(s, e.o) IN
                /\ bad' = bad \cup (IF e.out.kind # r[2].kind THEN {V(tr, k, "DenseApi.Outcome." \o e.o.op \o ".expected." \o r[2].kind \o ".observed." \o e.out.kind)}
                                     ELSE IF e.out.val # r[2].val THEN {V(tr, k, "DenseApi.Value." \o e.o.op)} ELSE {})
                /\ s' = r[1] /\ k' = k + 1 /\ ti' = ti
Spec == Init /\ [][Next]_vars
Emit == (ti = Len(Traces) + 1) => JsonSerialize(IOEnv.VF_OUT, [n |-> Len(Traces), bad |-> bad])
=============================================================================
