--------------------------------- MODULE Shear --------------------------------
(* Design-level argument of C10 for splitting methods, checked by TLC on integer   *)
(* 2x2 linear maps: a drift (q += a*p) and a kick (p += b*q) are shears with         *)
(* determinant 1; a composition of shears has determinant 1 (for one degree of       *)
(* freedom: symplectic); a palindromic composition S satisfies S(h) S(-h) = I.       *)
(* Coefficients range over small integers, the step over {-2..2}.                   *)
EXTENDS Integers, Sequences, TLC
CONSTANTS CS, N
Mul(A, B) == <<A[1] * B[1] + A[2] * B[3], A[1] * B[2] + A[2] * B[4], A[3] * B[1] + A[4] * B[3], A[3] * B[2] + A[4] * B[4]>>
Id == <<1, 0, 0, 1>>
Drift(a, h) == <<1, a * h, 0, 1>>
Kick(b, h) == <<1, 0, -b * h, 1>>
RECURSIVE Compose(_, _, _)
(* coefficient sequence cs (alternating kick, drift, kick, ...), applied left to right *)
Compose(cs, h, k) == IF k > Len(cs) THEN Id
                     ELSE Mul(Compose(cs, h, k + 1), IF k % 2 = 1 THEN Kick(cs[k], h) ELSE Drift(cs[k], h))
Det(A) == A[1] * A[4] - A[2] * A[3]
Reverse(s) == [k \in 1..Len(s) |-> s[Len(s) + 1 - k]]
VARIABLES cs, h
vars == <<cs, h>>
Init == cs \in [1..N -> CS] /\ h \in -2..2
Next == FALSE /\ UNCHANGED vars
Spec == Init /\ [][Next]_vars
CompositionOfShearsIsSymplectic == Det(Compose(cs, h, 1)) = 1
PalindromicCompositionIsReversible == (cs = Reverse(cs)) => Mul(Compose(cs, -h, 1), Compose(cs, h, 1)) = Id
=============================================================================
