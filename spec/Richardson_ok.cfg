CONSTANTS PMAX = 8  LMAX = 5  JSPAN = 6
  Dev <- NoDev
SPECIFICATION Spec
INVARIANT NeverLowerThanBase
INVARIANT StrictlyHigherWithThreeLevels
INVARIANT OrderFormula
CHECK_DEADLOCK FALSE
