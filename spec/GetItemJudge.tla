----------------------------- MODULE GetItemJudge ----------------------------
(* Judge for C19 (trajectory lookup by index and by time).  One case per system   *)
(* state observed on the real OdeSystem:                                           *)
(*   n        number of recorded rows                                              *)
(*   ints     [i, ok, row]   result of system[i] for every i in -n-2..n+2: the       *)
(*            0-based row it returned (identified by exact time and state bytes)    *)
(*            or ok = FALSE when IndexError was raised ("other" = another error)    *)
(*   iter     rows produced by iterating the system                                 *)
(*   times    [dists, row, dense, denseExact, tExact]: for a query time the ranks   *)
(*            of |t_k - q| for every recorded row k (exact arithmetic), the row      *)
(*            returned (-1 if it is not a recorded row), and with dense output       *)
(*            whether the returned state equals sol(q) bit for bit and the returned  *)
(*            time is q                                                             *)
(*   slices   [whole] a time slice spanning the run (taken along the run)           *)
(* The reference semantics are Lookup!IndexInt and Lookup!NearestRows.             *)
EXTENDS Lookup, TLC, Json, IOUtils
In == JsonDeserialize(IOEnv.VF_IN)
Cases == In.cases
VARIABLES i, bad
vars == <<i, bad>>
V(o, cl, k) == [id |-> o.id, clause |-> cl, k |-> k]
NearestByDist(d) == LET best == MinOf({d[k] : k \in 1..Len(d)}) IN {k - 1 : k \in {j \in 1..Len(d) : d[j] = best}}
CheckCase(o) ==
    {V(o, "C19.IntegerIndexLikeASequence", k) : k \in {k \in 1..Len(o.ints) :
            LET want == IndexInt(o.n, o.ints[k].i) IN
            ~((want.ok /\ o.ints[k].ok = "ok" /\ o.ints[k].row = want.row) \/ (~want.ok /\ o.ints[k].ok = "IndexError"))}}
    \cup (IF o.iter = [k \in 1..o.n |-> k - 1] THEN {} ELSE {V(o, "C19.IterationYieldsEachRowOnceInOrder", 0)})
    \cup (IF o.len = o.n THEN {} ELSE {V(o, "C19.LenIsNumberOfRows", 0)})
    \cup {V(o, "C19.TimeLookupReturnsNearestSample", k) : k \in {k \in 1..Len(o.times) :
            ~o.times[k].dense /\ o.times[k].row \notin NearestByDist(o.times[k].dists)}}
    \cup {V(o, "C19.TimeLookupReturnsDenseSolution", k) : k \in {k \in 1..Len(o.times) :
            o.times[k].dense /\ ~(o.times[k].denseExact /\ o.times[k].tExact)}}
    \cup {V(o, "C19.SliceSpanningTheRunReturnsTheRun", k) : k \in {k \in 1..Len(o.slices) : ~o.slices[k].whole}}
Init == i = 1 /\ bad = {}
Next == /\ i <= Len(Cases)
        /\ bad' = bad \cup CheckCase(Cases[i])
        /\ i' = i + 1
Spec == Init /\ [][Next]_vars
Emit == (i = Len(Cases) + 1) => JsonSerialize(IOEnv.VF_OUT, [n |-> Len(Cases), bad |-> bad])
=============================================================================
