CONSTANTS ADAPTIVE = TRUE  IMPLICIT = TRUE  RETRIES = 3
  HS <- MCHS
  Dev <- D4
SPECIFICATION Spec
INVARIANT NeverReturnRejectedOrUnconverged
INVARIANT RetryShrinks
INVARIANT FixedExplicitTakesRequestedStep
INVARIANT SlopeCacheConsistent
INVARIANT BoundedAttempts
CHECK_DEADLOCK FALSE
