CONSTANTS MAXLEN = 0  GENLEN = 4
  Dev <- DevCode
SPECIFICATION Spec
CHECK_DEADLOCK FALSE
