CONSTANTS MAXLEN = 5  GENLEN = 0
  Dev <- DevTrunc
SPECIFICATION Spec
INVARIANT StoppedTimerReportsItsSpan
INVARIANT EndFreezesTheTimer
INVARIANT StartedTimerReportsOnExit
INVARIANT RunningTimerFollowsTheClock
INVARIANT ConvertSuffixIsPositional
CHECK_DEADLOCK FALSE
