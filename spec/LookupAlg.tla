----------------------------- MODULE LookupAlg ------------------------------
(* Design-level model of the bisection search used by search_bisection:      *)
(* one action per loop iteration, so TLC explores the algorithm on every     *)
(* strictly increasing array over the grid and every query on the refined    *)
(* grid, and checks the result against Lookup!Bisect.                        *)
(* Grid points are the even numbers 0,2,..,2*(G-1); queries range over the   *)
(* refined grid -2..2*G (on, between and outside).                           *)
EXTENDS Lookup, TLC
CONSTANTS G, MaxLen

GridPts == {2 * k : k \in 0..(G - 1)}
Arrays == {SortedSeq(S) : S \in {T \in SUBSET GridPts : Cardinality(T) >= 1 /\ Cardinality(T) <= MaxLen}}
Queries == (-2)..(2 * G)

VARIABLES a, q, lo, hi, pc, res
vars == <<a, q, lo, hi, pc, res>>

Init == /\ a \in Arrays /\ q \in Queries
        /\ lo = 0 /\ hi = Len(a) - 1 /\ pc = "start" /\ res = -1

Start == /\ pc = "start"
         /\ IF q <= a[lo + 1] THEN pc' = "done" /\ res' = lo
            ELSE IF q >= a[hi + 1] THEN pc' = "done" /\ res' = hi
            ELSE pc' = "loop" /\ res' = res
         /\ UNCHANGED <<a, q, lo, hi>>

Loop == /\ pc = "loop" /\ hi - lo > 1
        /\ LET mid == (hi + lo) \div 2 IN
             IF q >= a[mid + 1] THEN lo' = mid /\ hi' = hi ELSE hi' = mid /\ lo' = lo
        /\ UNCHANGED <<a, q, pc, res>>

Exit == /\ pc = "loop" /\ hi - lo <= 1
        /\ res' = IF a[lo + 1] < q THEN hi ELSE lo
        /\ pc' = "done"
        /\ UNCHANGED <<a, q, lo, hi>>

Next == Start \/ Loop \/ Exit
Spec == Init /\ [][Next]_vars

ResultIsFirstNotSmaller == pc = "done" => res = Bisect(a, q)
BracketInvariant == pc = "loop" => (a[lo + 1] <= q /\ q < a[hi + 1] /\ lo < hi)
IntervalShrinks == [][Loop => (hi' - lo') < (hi - lo)]_vars
=============================================================================
