SPECIFICATION Spec
INVARIANT NoRootOnGrid
INVARIANT EveryPathReached
INVARIANT EveryPathSeesNoRoot
CHECK_DEADLOCK FALSE
