"""C16: after unhook_jacobian_call() the wrapper stayed marked initialised with no Jacobian, so the
next jac() call raised TypeError instead of differentiating the right-hand side."""
import numpy as np, desolver as de
r = de.DiffRHS(lambda t, y: np.array([2.0 * y[0] + t, -3.0 * y[1]]))
r.hook_jacobian_call(lambda t, y: np.array([[7.0, 0.0], [0.0, 7.0]]))
assert r.jac(0.5, np.array([1.0, 2.0]))[0, 0] == 7.0
r.unhook_jacobian_call()
J = r.jac(0.5, np.array([1.0, 2.0]))
assert np.allclose(J, [[2.0, 0.0], [0.0, -3.0]], atol=1e-8), J
print("ok")
