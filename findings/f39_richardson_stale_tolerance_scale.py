"""C05: Richardson wrappers on a decaying solution with an almost purely relative tolerance.  The controller scales rtol with a running
average of the solution's magnitude; the wrappers never cleared it (a Runge-Kutta integrator starts it afresh every step), so the
remembered scale lagged orders of magnitude behind y = exp(-t), the step grew to 3.5 - 9 and the states came back 1e9 - 1e13 tolerances
off, with no error raised.  Fails before the repair, passes after."""
import numpy as np, desolver as de
from desolver.integrators import generate_richardson_integrator

worst = {}
for base, lev in (("RK4", 2), ("RK4", 3), ("RK4", 4), ("Midpoint", 3)):
    s = de.OdeSystem(lambda t, y: -y, y0=np.array([1.0]), t=(0, 40), dt=0.1, rtol=1e-4, atol=1e-30)
    s.set_method(generate_richardson_integrator(de.available_methods(False)[base], richardson_iter=lev))
    s.integrate()
    ex = np.exp(-s.t)
    worst[(base, lev)] = float(np.max(np.abs(s.y[:, 0] - ex) / (1e-30 + 1e-4 * ex)))
assert max(worst.values()) < 500, "error in units of atol + rtol|y| (the problem is contractive): %r" % (worst,)
print("ok", worst)
