"""C14: the Brent solvers stopped after 64 function evaluations; from a wide bracket a jump discontinuity or a multiple root needs
more bisection steps than that to be located to the requested tolerance, so a bracketed sign change was reported as a failure
(jump) or returned far from the sign change (triple root)."""
import numpy as np
from desolver.utilities.optimizer import brentsroot, brentsrootvec
f_jump = lambda x: 1e3 * np.sign(x - 0.625) * (1 + abs(x))
f_trip = lambda x: (x + 0.625) ** 3
for f, r in ((f_jump, 0.625), (f_trip, -0.625)):
    x, ok = brentsroot(f, [np.float64(-137.5), np.float64(2.0)])
    assert ok and abs(x - r) <= 4 * 8.9e-16, (x, ok)
    xv, okv = brentsrootvec([f], [np.float64(-137.5), np.float64(2.0)])
    assert okv[0] and abs(xv[0] - r) <= 4 * 8.9e-16, (xv, okv)
print("ok")
