"""C06/C09: after a terminal event the interpolant of the rolled-back step stayed in the dense output
and the pieces of the landing sub-steps were inserted at the front, leaving an unsorted piece list and
wrong values between grid points after a continuation."""
import numpy as np, desolver as de
def rhs(t, y): return np.array([y[1], -y[0]])
def ev(t, y): return t - 0.6
ev.is_terminal = True
a = de.OdeSystem(rhs, np.array([1.0, 0.0]), t=(0.0, 2.0), dt=0.25, dense_output=True); a.method = "RK4"
a.integrate(events=ev)
assert abs(a.t[-1] - 0.6) < 1e-12
a.integrate()
te = np.array([float(x) for x in a.sol.t_eval])
assert np.all(np.diff(te) > 0), te
assert np.allclose(te, a.t[1:]), (te, a.t)
for q in np.linspace(0.0, 2.0, 41):
    ex = np.array([np.cos(q), -np.sin(q)])
    assert np.max(np.abs(a.sol(q) - ex)) < 1e-4, (q, a.sol(q), ex)
print("ok")
