"""C19: the nearest-sample lookup compared the right neighbour with the sample after it, and every
time lookup / time slice on a decreasing (backward) grid used a bisection that assumes increasing
order."""
import numpy as np, desolver as de
def rhs(t, y): return -y
a = de.OdeSystem(rhs, np.array([1.0]), t=(0.0, 1.0), dt=0.25); a.method = "RK4"; a.integrate()
assert a[0.1].t == 0.0, a[0.1].t
assert a[0.2].t == 0.25 and a[0.6].t == 0.5 and a[0.99].t == 1.0 and a[-3.0].t == 0.0 and a[7.0].t == 1.0
b = de.OdeSystem(rhs, np.array([1.0]), t=(1.0, 0.0), dt=0.25); b.method = "RK4"; b.integrate()
assert list(b.t) == [1.0, 0.75, 0.5, 0.25, 0.0]
for q, want in ((0.1, 0.0), (0.2, 0.25), (0.6, 0.5), (0.7, 0.75), (0.99, 1.0), (5.0, 1.0), (-5.0, 0.0)):
    assert b[q].t == want, (q, b[q].t, want)
assert len(a[0.0:1.0].t) == 5 and len(b[1.0:0.0].t) == 5, (a[0.0:1.0].t, b[1.0:0.0].t)
print("ok")
