"""C01: the Aitken-Neville divisor 2^n - 1 ignored the order p of the wrapped method (correct:
2^(p+n-1) - 1), so extrapolating a method of order >= 2 never raised the order."""
import numpy as np, desolver as de
def rhs(t, y): return np.array([y[1], -y[0]])
def one_step_err(cls, h):
    integ = cls((2,), dtype=np.dtype("float64"), rtol=1e300, atol=1e300)
    r = de.DiffRHS(rhs)
    dt, (dT, dY) = integ(r, np.float64(0.0), np.array([1.0, 0.0]), {}, np.float64(h))
    assert dT == h
    return np.max(np.abs(np.array([1.0, 0.0]) + dY - np.array([np.cos(h), -np.sin(h)])))
for base, p in ((de.integrators.RK4Solver, 4), (de.integrators.MidpointSolver, 2)):
    R3 = de.integrators.generate_richardson_integrator(base, richardson_iter=3)
    e1, e2 = one_step_err(R3, 0.2), one_step_err(R3, 0.1)
    local_order = np.log2(e1 / e2)          # local error ~ h^(order+1)
    assert local_order > p + 1.6, (base.__name__, e1, e2, local_order)
print("ok")
