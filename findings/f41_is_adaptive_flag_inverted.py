"""C05 / C01: 'integrator.is_adaptive = False' switched nothing off (and '= True' switched adaptation OFF): the flag behind the property was read
inverted.  The Richardson wrappers assign False to their basis integrators; wrapped embedded pairs went on shortening steps on their own,
so inside one attempt of the wrapper level 0 (asked for 0.5) took 0.0238 while the two halves of level 1 took 0.0009 each: the tableau
extrapolated increments over different spans.  Fails before the repair, passes after."""
import numpy as np, desolver as de
from desolver.integrators import generate_richardson_integrator

integ = de.integrators.RK45CKSolver((2,), dtype=np.float64, rtol=1e-10, atol=1e-10)
assert integ.is_adaptive
integ.is_adaptive = False
assert not integ.is_adaptive, "assigning False leaves the pair adaptive"
integ.is_adaptive = True
assert integ.is_adaptive

f = lambda t, y: np.array([-50.0 * y[0] + np.sin(3 * t), y[0] - y[1] ** 3])      # noqa
cls = generate_richardson_integrator(de.available_methods(False)["RK45CK"], richardson_iter=3)
w = cls((2,), dtype=np.float64, rtol=1e-10, atol=1e-10)
logs = []
for m, b in enumerate(w.basis_integrators):
    orig = type(b).__call__

    def call(self, rhs_, t, y, c, dt, _m=m, _o=orig):
        res = _o(self, rhs_, t, y, c, dt)
        logs.append((_m, float(dt), float(res[1][0])))
        return res
    b.__class__ = type("Observed", (type(b),), {"__call__": call})
w(de.DiffRHS(f), np.float64(0.0), np.array([0.5, 1.0]), {}, np.float64(0.5))
short = [(m, req, ret) for (m, req, ret) in logs if abs(ret) < abs(req) * (1 - 1e-12)]
assert not short, "basis integrators of the wrapper shortened steps on their own: %r" % (short[:4],)
print("ok")
