"""C10/C13: a user-supplied kick mask never reached a splitting integrator: OdeSystem tested
`not self.__method.is_implicit` on the class (a property object, always truthy), and constructing a
splitting integrator directly with a mask raised AttributeError (D.astype does not exist)."""
import numpy as np, desolver as de
def rhs(t, y): return np.array([y[1], -y[0], y[3], -4.0 * y[2]])   # y = [q1, p1, q2, p2]
mask = np.array([False, True, False, True])
integ = de.integrators.ABAs5o6HSolver((4,), dtype=np.dtype("float64"), staggered_mask=mask)
assert np.array_equal(integ.staggered_mask, mask)
a = de.OdeSystem(rhs, np.array([1.0, 0.0, 0.5, 0.0]), t=(0.0, 50.0), dt=0.05); a.method = "ABAS5O6H"
a.set_kick_vars(mask)
assert np.array_equal(a.integrator.staggered_mask, mask), a.integrator.staggered_mask
a.integrate()
H = 0.5 * (a.y[:, 1] ** 2 + a.y[:, 0] ** 2) + 0.5 * (a.y[:, 3] ** 2 + 4.0 * a.y[:, 2] ** 2)
assert np.max(np.abs(H - H[0])) < 1e-8, np.max(np.abs(H - H[0]))
print("ok")
