"""C06/C07/C08: on backward runs the dense output answered interior queries with the neighbouring
piece (bisection on end times assumes a forward run), and with dense_output=False the pruning removed
the newest piece, so no event was found on any backward run."""
import numpy as np, desolver as de
def rhs(t, y): return np.array([y[1], -y[0]])
a = de.OdeSystem(rhs, np.array([1.0, 0.0]), t=(2.0, 0.0), dt=0.25, dense_output=True); a.method = "RK4"; a.integrate()
for q in np.linspace(0.0, 2.0, 33):
    ex = np.array([np.cos(q - 2.0), -np.sin(q - 2.0)])
    assert np.max(np.abs(a.sol(q) - ex)) < 1e-4, (q, a.sol(q), ex)
assert np.max(np.abs(a.sol(np.array([0.1, 1.3])) - np.array([[np.cos(-1.9), -np.sin(-1.9)], [np.cos(-0.7), -np.sin(-0.7)]]))) < 1e-4
def ev(t, y): return t - 1.1
for dense in (True, False):
    b = de.OdeSystem(rhs, np.array([1.0, 0.0]), t=(2.0, 0.0), dt=0.25, dense_output=dense); b.method = "RK4"
    b.integrate(events=ev)
    assert len(b.events) == 1 and abs(b.events[0].t - 1.1) < 1e-9, (dense, b.events)
print("ok")
