"""C04: implicit methods without an embedded error estimator were still sent through the step-size
controller (zero error estimate -> maximal growth), so a 'fixed-step' method took steps much longer
than the requested dt."""
import numpy as np, desolver as de
def rhs(t, y): return -y
for meth in (de.integrators.BackwardEuler, de.integrators.CrankNicolson, de.integrators.GaussLegendre4, de.integrators.LobattoIIIA4, de.integrators.RadauIIA3):
    a = de.OdeSystem(rhs, np.array([1.0]), t=(0.0, 2.0), dt=0.25); a.method = meth; a.integrate()
    steps = np.diff(a.t)
    assert np.all(np.abs(steps) <= 0.25 * (1 + 1e-12)), (meth.__name__, steps)
    assert np.all(np.abs(steps[:-1] - 0.25) <= 1e-12), (meth.__name__, steps)
print("ok")
