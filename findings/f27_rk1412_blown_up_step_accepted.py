"""C05 (known finding, not repaired): RK1412 on y' = -2 t y^2 / A, y(0) = A = 2^-20 (exact solution A / (1 + t^2)), t in [0, 2],
rtol = 1e-6, atol = 1e-15, initial dt larger than the span.  The first attempt (h = 1) overflows and is retried with h = 1/2 (fine);
the controller then proposes h = 0.788, whose 35 stages blow up to a FINITE increment of -4.5e172.  The pair's embedded estimate compares
only two of the stages (4.8e81) and the acceptance test scales the tolerance with the step's own increment (rtol * |dy/h| = 5.8e166), so
the step is ACCEPTED and the state -4.5e172 is recorded; the next step then fails with FailedToMeetTolerances.  An inaccurate state was
recorded instead of an error being raised.  This script demonstrates it; it exits 0 while the finding is present."""
import numpy as np, desolver as de
A = 2.0 ** -20
s = de.OdeSystem(lambda t, y: -2 * t * y * y * 1048576.0, y0=np.array([A]), t=(0.0, 2.0), dt=5.0, rtol=1e-6, atol=1e-15)
s.method = "RK1412"
try:
    s.integrate()
    failed = False
except de.exception_types.FailedIntegration:
    failed = True
worst = float(np.max(np.abs(s.y)))
print("raised:", failed, "rows:", len(s), "largest recorded |y|: %.3g" % worst, "(exact solution never exceeds %.3g)" % A)
assert worst > 1e100, "finding no longer present"
print("finding present")
