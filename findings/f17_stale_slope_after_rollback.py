"""C06/C09: after a terminal event rolled the overshooting step back, the sub-steps that land on the event started from the
integrator's cached end-of-step slope of the ROLLED-BACK step, so the first landing piece of the dense output had a start slope
that was not the right-hand side at the recorded state (error 0.2 on the oscillator with RK4, dt = 0.25)."""
import numpy as np, desolver as de
def rhs(t, y): return np.array([y[1], -y[0]])
def ev(t, y): return t - 0.6
ev.is_terminal = True
for meth in ("RK4", "DOPRI45", "BackwardEuler", "ABAS5O6H"):
    a = de.OdeSystem(rhs, np.array([1.0, 0.0]), t=(0.0, 2.0), dt=0.25, dense_output=True, rtol=1e-8, atol=1e-8); a.method = meth
    a.integrate(events=ev); a.integrate()
    for i in range(1, len(a.t)):
        p = a.sol.y_interpolants[i - 1]
        assert np.max(np.abs(p.m0 - rhs(a.t[i - 1], a.y[i - 1]))) < 1e-12, (meth, i, p.m0, rhs(a.t[i - 1], a.y[i - 1]))
        assert np.max(np.abs(p.m1 - rhs(a.t[i], a.y[i]))) < 1e-12, (meth, i)
print("ok")
