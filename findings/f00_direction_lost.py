"""C03: assigning dt inside the loop re-fixed its sign against the system's (t0, tf), not against
the target of the current integrate(t) call, so a call that runs against the span direction
turned round after its first step (non-monotone grid, overshoot, then one giant final step)."""
import numpy as np, desolver as de
def rhs(t, y): return -y
b = de.OdeSystem(rhs, np.array([1.0]), t=(0.0, 1.0), dt=0.25); b.method = "RK4"; b.integrate(1.0)
n = len(b.t)
b.integrate(-1.0)
seg = b.t[n - 1:]
assert np.all(np.diff(seg) < 0), ("not monotone toward the target", seg)
print("ok")
