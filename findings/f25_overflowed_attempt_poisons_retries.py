"""C05: an attempt whose stages overflow (here the first step of the 35-stage RK1412 on y' = -2 t y^2 with an initial dt larger than
the span, so that the first attempt is span/2 = 1) leaves inf/nan slopes in the integrator's stage storage.  The first stage of
every later attempt has an all-zero coefficient row and was computed as sum(ALL stored slopes * 0): 0 * inf = nan, so every retry -
however small - was nan as well and the run ended in FailedToMeetTolerances although the tolerances are easily met
("for any initial step ... larger than the span")."""
import numpy as np, desolver as de
for m in ("RK1412", "RK108", "RK87", "RK45CK"):
    for tf in (2.0, -2.0):
        s = de.OdeSystem(lambda t, y: -2 * t * y * y, y0=np.array([1.0]), t=(0.0, tf), dt=5.0, rtol=1e-5, atol=1e-5)
        s.method = m
        s.integrate()
        err = abs(float(s.y[-1][0]) - 0.2)
        assert float(s.t[-1]) == tf and err < 32 * (1e-5 + 1e-5 * 0.2) * 4, (m, tf, err)
print("ok")
