"""C12: when an event function raised during event handling the step under examination had already been rolled back
(counter decremented) while its interpolant stayed in the dense output, so after the failure the dense output covered a
step that was not part of the recorded trajectory and a resumed call added the same step's piece a second time."""
import numpy as np, desolver as de
def rhs(t, y): return np.array([y[1], -y[0]])
n = [0]
def ev(t, y):
    n[0] += 1
    if n[0] == 30: raise ValueError("boom")
    return t - 0.9
a = de.OdeSystem(rhs, np.array([1.0, 0.0]), t=(0.0, 2.0), dt=0.25, dense_output=True); a.method = "RK4"
try:
    a.integrate(events=ev)
except de.exception_types.FailedIntegration:
    pass
assert len(a.sol.t_eval) == len(a.t) - 1, (len(a.sol.t_eval), len(a.t))
a.integrate(events=ev)
te = np.array([float(x) for x in a.sol.t_eval])
assert np.allclose(te, a.t[1:]) and np.all(np.diff(te) > 0), (te, a.t)
print("ok")
