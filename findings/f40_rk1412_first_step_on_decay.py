"""C05 (known finding, same mechanism as f27, not repaired): RK1412 started with a step far larger than the natural one on y' = -y with an
almost purely relative tolerance (rtol 1e-3 or 1e-5, atol 1e-26 rtol, dt0 = 5).  The controller's retries arrive at h = 2.10; in the 35
stages of the tableau (coefficients of size 1e3) that step takes y from 1 to -8.95 (exact: 0.122); the pair's embedded estimate compares two
stages only and the acceptance test scales the tolerance with the step's own increment |dy/h| = 4.7, so the step is ACCEPTED and the whole
run stays 7e4 tolerances off (2.7e2 at rtol 1e-5).  With dt0 = 0.25 the same run is within 4 units.  Changing the acceptance scaling or the
estimator decides every adaptive step sequence: not a small, safe patch.  This script demonstrates it; it exits 0 while the finding is present."""
import numpy as np, desolver as de

out = {}
for dt0 in (5.0, 0.25):
    s = de.OdeSystem(lambda t, y: -y, y0=np.array([1.0]), t=(0, 20.0), dt=dt0, rtol=1e-3, atol=1e-29)
    s.method = "RK1412"
    s.integrate()
    ex = np.exp(-s.t)
    out[dt0] = float(np.max(np.abs(s.y[:, 0] - ex) / (1e-3 * ex)))
print(out)
assert out[0.25] < 10, "the run with a sensible first step is no longer accurate?"
assert out[5.0] > 1000, "finding no longer present"
print("finding present")
