"""C15: hybrj() - and nonlinear_roots() on its long-double path, which trusts hybrj's flag - report success at a point that is no solution.
Success was claimed as soon as the step norm or the trust region fell below xtol = tol (n + |x|), whatever the residual.  With the
equations listed in permuted order the Jacobian's diagonal is exactly zero at the guess (0, 0); the iteration runs away and 'converges'
at (828.5, -28.8) with |F| = 4.5e4 at tol = 1e-10.  Fails before the repair, passes after."""
import numpy as np
from desolver.utilities import optimizer as opt


def F(z):
    return np.stack([z[1] ** 3 + z[1] - 2 + z[0] ** 2 / 10, z[0] - z[1] ** 2])


def J(z):
    return np.array([[z[0] / 5, 3 * z[1] ** 2 + 1], [1.0, -2 * z[1]]], dtype=z.dtype)


bad = []
for dt in (np.float64, np.longdouble):
    for name in ("hybrj", "nonlinear_roots", "newtontrustregion"):
        for jac in (J, None):
            x0 = np.zeros(2, dtype=dt)
            tol = 1e-10
            if name == "hybrj":
                x, info = opt.hybrj(F, x0, jac, tol=tol)
            else:
                x, info = getattr(opt, name)(F, x0, jac=jac, tol=tol)
            res = float(np.linalg.norm(F(np.asarray(x, dtype=np.longdouble))))
            if bool(info[0]) and not res <= 10 * tol * np.sqrt(2):
                bad.append((dt.__name__, name, jac is not None, [float(v) for v in x], res))
assert not bad, "success claimed at a point that is no solution: %r" % (bad,)
print("ok")
