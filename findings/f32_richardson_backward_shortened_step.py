"""C05: a Richardson wrapper of an embedded pair on a BACKWARD span.  The pair keeps controlling its own step inside the wrapper; when it
shortened the first level's step the wrapper compared 'dt_z < timestep' by sign, so on a negative step the shorter step was not adopted:
the other levels integrated over the requested step, the tableau mixed increments over different spans and the full step was reported as
taken.  rich(RK45CK, 3) / rich(DOPRI45, 4) on [0, -3] at rtol = atol = 1e-8 ended 4e-3 / 2e-3 off (forward: 1e-11).
Fails before the repair, passes after."""
import numpy as np, desolver as de
from desolver.integrators import generate_richardson_integrator

worst = {}
for base, lev in (("RK45CK", 3), ("RK45CK", 4), ("DOPRI45", 4), ("RK4", 3)):
    for (a, b) in ((0.0, -3.0), (0.0, 3.0), (2.0, -1.0)):
        s = de.OdeSystem(lambda t, y: np.array([y[1], -y[0]]), y0=np.array([1.0, 0.0]), t=(a, b), dt=0.1, rtol=1e-8, atol=1e-8)
        s.set_method(generate_richardson_integrator(de.available_methods(False)[base], richardson_iter=lev))
        s.integrate()
        T = b - a
        err = float(np.max(np.abs(s.y[-1] - np.array([np.cos(T), -np.sin(T)]))))
        worst[(base, lev, a, b)] = err
bad = {k: v for k, v in worst.items() if v > 1e-6}       # 100 x the tolerance; the amplification of the oscillator is 1
assert not bad, "global error far above the tolerance 1e-8: %r" % (bad,)
print("ok", max(worst.values()))
