"""C05: a Richardson wrapper of an embedded pair on a BACKWARD span.  The pair keeps controlling its own step inside the wrapper; when it
shortened the first level's step the wrapper compared 'dt_z < timestep' by sign, so on a negative step the shorter step was not adopted:
the other levels integrated over the requested step, the tableau mixed increments over different spans and the full step was reported as
taken.  rich(RK45CK, 3) / rich(DOPRI45, 4) on [0, -3] at rtol = atol = 1e-8 ended 4e-3 / 2e-3 off (forward: 1e-11).
Fails before the repair, passes after."""
import numpy as np, desolver as de
from desolver.integrators import generate_richardson_integrator

worst = {}
for base, lev in (("RK45CK", 3), ("RK45CK", 4), ("DOPRI45", 4), ("RK4", 3)):
    for (a, b) in ((0.0, -3.0), (0.0, 3.0), (2.0, -1.0)):
        s = de.OdeSystem(lambda t, y: np.array([y[1], -y[0]]), y0=np.array([1.0, 0.0]), t=(a, b), dt=0.1, rtol=1e-8, atol=1e-8)
        s.set_method(generate_richardson_integrator(de.available_methods(False)[base], richardson_iter=lev))
        s.integrate()
        T = b - a
        err = float(np.max(np.abs(s.y[-1] - np.array([np.cos(T), -np.sin(T)]))))
        worst[(base, lev, a, b)] = err
bad = {k: v for k, v in worst.items() if v > 1e-6}       # 100 x the tolerance; the amplification of the oscillator is 1
assert not bad, "global error far above the tolerance 1e-8: %r" % (bad,)
print("ok", max(worst.values()))

# Since repair 40 wrapped embedded pairs no longer shorten steps on their own, so the runs above no longer exercise the adoption of a
# shortened step.  What still shortens is a basis integrator whose stage solve fails (implicit methods); the same situation, made
# deterministic: a basis integrator that hands back 3/4 of the first step it is asked for, on y' = c, with tolerances that accept anything.
# Every level's increment is c x (the span it integrated): the returned increment equals c x (the returned step) iff all levels integrated
# the step that is reported.
for base, lev in (("RK4", 3), ("Midpoint", 2)):
    for h in (0.5, -0.5, 2.0, -2.0):
        cls0 = de.available_methods(False)[base]
        armed = [True]

        class Shortening(cls0):
            def __call__(self, rhs_, t, y, c, dt):
                if armed[0]:
                    armed[0] = False
                    return super().__call__(rhs_, t, y, c, dt * np.float64(0.75))
                return super().__call__(rhs_, t, y, c, dt)
        Shortening.__name__ = cls0.__name__
        w = generate_richardson_integrator(Shortening, richardson_iter=lev)((2,), dtype=np.float64, rtol=1e30, atol=1e30)
        cvec = np.array([3.0, -0.5])
        r = w(de.DiffRHS(lambda t, y: cvec + 0.0 * y), np.float64(1.0), np.array([0.25, 2.0]), {}, np.float64(h))
        dT, dY = r[1]
        assert abs(float(dT) - 0.75 * h) < 1e-15 and np.max(np.abs(dY - cvec * dT)) < 1e-13, (base, lev, h, float(dT), dY, cvec * dT)
print("ok (shortening basis)")
