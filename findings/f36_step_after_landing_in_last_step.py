"""C04: a terminal event found in the CLAMPED LAST step of a call.  To land on the event integrate() calls itself with the event time as
target, which shortens the step; a full step replaces it again with the integrator's proposal, a clamped last step stores nothing - the
shortened step stayed in force and a continued call of a fixed-step method ran in steps of 0.015 instead of the requested 0.1.
Fails before the repair, passes after."""
import numpy as np, desolver as de

for meth in ("RK4", "ABAS5O6H", "BackwardEuler"):
    for sign in (1.0, -1.0):
        y0 = np.array([1.0, 0.5])
        s = de.OdeSystem(lambda t, y: np.array([y[1], -y[0]]), y0=y0, t=(0, sign * 1.05), dt=0.1)
        s.method = meth
        ev = lambda t, y, s_=sign: t - s_ * 1.03      # noqa
        ev.is_terminal = True
        s.integrate(events=[ev])
        n = len(s.t)
        assert abs(abs(float(s.dt)) - 0.1) < 1e-15, (meth, sign, float(s.dt))
        s.integrate(t=sign * 2.0)
        steps = np.abs(np.diff(s.t[n - 1:]))
        assert np.all(np.abs(steps[:-1] - 0.1) < 1e-12), (meth, sign, steps)
print("ok")
