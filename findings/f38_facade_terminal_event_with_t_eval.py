"""C18: solve_ivp(t_eval=..., events=[terminal]).  The facade calls integrate(t) once per requested time without looking at the status: after
the terminal event it collected the EVENT time as if it had been requested, went on calling integrate() - which records the same event
again at once - and returned t = [0.2, 0.4, 0.5108, 0.5108] with two events for t_eval = [0.2, 0.4, 1.0, 1.5].  scipy returns [0.2, 0.4]
and one event.  Fails before the repair, passes after."""
import numpy as np, desolver as de


def ev(t, y):
    return y[0] - 0.6


ev.is_terminal = True
for method in ("RK45", "RK4", "RadauIIA5"):
    for te, want in (([0.2, 0.4, 1.0, 1.5], [0.2, 0.4]), ([1.5, 1.0], []), ([0.4, 0.1, 0.1], [0.1, 0.1, 0.4])):
        r = de.solve_ivp(lambda t, y: -y, (0, 2), np.array([1.0, 2.0]), method=method, t_eval=te, events=[ev], rtol=1e-8, atol=1e-8, first_step=0.05)
        assert list(np.round(r.t, 12)) == want, (method, te, r.t)
        assert r.y.shape == (2, len(want)), (method, te, r.y.shape)
        assert len(r.t_events) == (1 if max(te) > 0.52 else 0), (method, te, [float(e.t) for e in r.t_events])
        assert r.success
print("ok")
