"""C01 (known finding, not repaired): ABAs5o6HSolver / BABs9o7HSolver declare order 6 / 7 but the local error of one step on a general
separable system behaves like h^5 (order 4).  This script demonstrates it; it exits 0 when the finding is present."""
import numpy as np, desolver as de
def rhs(t, y): return np.array([y[1], -np.sin(y[0]) - 0.3 * y[0] ** 3])       # q' = p, p' = -V'(q): separable, not near-integrable
def ref(h):
    a = de.OdeSystem(rhs, np.array([1.0, 0.3]), t=(0.0, h), dt=h / 64, rtol=1e-14, atol=1e-14); a.method = "RK108"; a.integrate(); return a.y[-1]
for cls, declared in ((de.integrators.ABAs5o6HSolver, 6), (de.integrators.BABs9o7HSolver, 7)):
    errs = []
    for h in (0.4, 0.2):
        integ = cls((2,), dtype=np.dtype("float64"))
        dt, (dT, dY) = integ(de.DiffRHS(rhs), np.float64(0.0), np.array([1.0, 0.3]), {}, np.float64(h))
        errs.append(np.max(np.abs(np.array([1.0, 0.3]) + dY - ref(h))))
    local = np.log2(errs[0] / errs[1])
    print(cls.__name__, "declared order", declared, "observed local error exponent %.2f (order %.2f)" % (local, local - 1))
    assert local < declared, "finding no longer present"
print("finding present")
