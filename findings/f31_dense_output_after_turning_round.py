"""C06: dense output of a system whose integrate() calls changed direction (e.g. integrate(t=2), integrate(t=1), ...).  DenseOutput
bisects the list of piece end times, which is ordered only while every call runs in the same direction; after a turn queries inside the
integrated range were answered by EXTRAPOLATING a neighbouring piece (a piece whose interval does not contain the query), and the scalar
and the array form of the same query could be answered by different pieces.  Fails before 654424a, passes after."""
import numpy as np, desolver as de


class Rec(object):
    def __init__(self, o, log):
        self.o, self.log = o, log

    def __call__(self, t):
        self.log.append(self.o)
        return self.o(t)

    def __getattr__(self, n):
        return getattr(self.o, n)


bad = disagree = total = 0
for meth in ("RK4", "RK45CK"):
    for (a, b) in ((0.0, 2.0), (2.0, 0.0), (-5.0, -3.0)):
        for seq in ((0.7, 0.3, 1.0), (0.5, 0.2, 0.8, 0.4, 1.0), (1.0, 0.5), (0.6, 0.0, 1.0)):
            s = de.OdeSystem(lambda t, y: -y, y0=np.array([1.0]), dense_output=True, t=(a, b), dt=(b - a) / 8, rtol=1e-6, atol=1e-6)
            s.method = meth
            for f in seq:
                s.integrate(t=a + (b - a) * f)
            sol, pieces = s.sol, list(s.sol.y_interpolants)
            qs = np.linspace(min(s.t), max(s.t), 97)
            vec = sol(qs)
            for k, q in enumerate(qs):
                log = []
                sol.y_interpolants = [Rec(p, log) for p in pieces]
                v = sol(q)
                sol.y_interpolants = pieces
                p = log[-1]
                total += 1
                bad += not (min(p.t0, p.t1) <= q <= max(p.t0, p.t1))
                disagree += not np.array_equal(v, vec[k])
assert bad == 0 and disagree == 0, "%d of %d queries inside the integrated range answered by a piece that does not contain them, %d scalar/array disagreements" % (bad, total, disagree)
print("ok")
