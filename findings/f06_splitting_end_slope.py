"""C06: the splitting integrators evaluated the end-of-step slope only once (on the first step) and
reused it for every later interpolant, so dense output between grid points was wrong from the second
step on."""
import numpy as np, desolver as de
def rhs(t, y): return np.array([y[1], -y[0]])
for meth in ("ABAS5O6H", "BABS9O7H", "Symplectic Forward Euler"):
    a = de.OdeSystem(rhs, np.array([1.0, 0.0]), t=(0.0, 2.0), dt=0.125, dense_output=True); a.method = meth; a.integrate()
    for i in range(1, len(a.t)):
        piece = a.sol.y_interpolants[i - 1]
        assert np.array_equal(piece.m1, rhs(a.t[i], a.y[i])), (meth, i, piece.m1, rhs(a.t[i], a.y[i]))
print("ok")
