"""C05: a rejected step was retried with minimum(new, old), which for negative steps picks the LARGER
magnitude; backward adaptive runs that reject a step end in FailedToMeetTolerances."""
import numpy as np, desolver as de
def rhs(t, y): return np.array([y[1], -y[0]])
for meth, span in (("RK45CK", (10.0, 5.0)), ("RK45CK", (1.0, -5.0)), ("RK45CK", (0.0, -7.0)), ("RadauIIA5", (0.0, -2.0))):
    a = de.OdeSystem(rhs, np.array([1.0, 0.0]), t=span, dt=1.0, rtol=1e-8, atol=1e-8); a.method = meth
    a.integrate()
    ex = np.array([np.cos(span[1] - span[0]), -np.sin(span[1] - span[0])])
    assert abs(a.t[-1] - span[1]) < 1e-12 and np.max(np.abs(a.y[-1] - ex)) < 1e-5, (meth, span, a.y[-1], ex)
print("ok")
