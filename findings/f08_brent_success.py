"""C14/C08: the Brent solvers reported success only when |f(root)| <= tol (an absolute residual
test), so for a steep function a correctly bracketed and converged root was reported as a failure -
and the event detection built on it silently missed crossings of steep event functions."""
import numpy as np, desolver as de
from desolver.utilities.optimizer import brentsroot, brentsrootvec
for s in (1.0, 10.0, 1e3, 1e6, 1e9):
    f = lambda x, s=s: s * (np.exp(x) - 1.7)
    r, ok = brentsroot(f, [np.float64(0.0), np.float64(1.0)])
    assert ok and abs(r - np.log(1.7)) < 1e-12, (s, r, ok)
    rv, okv = brentsrootvec([f, f], [np.float64(0.0), np.float64(1.0)])
    assert np.all(okv) and np.all(np.abs(rv - np.log(1.7)) < 1e-12), (s, rv, okv)
r, ok = brentsroot(lambda x: x * x + 1.0, [np.float64(-1.0), np.float64(2.0)])
assert not ok
def rhs(t, y): return -y
for s in (1.0, 10.0, 1e4, 1e8):
    def ev(t, y, s=s): return s * (np.sin(t) - 0.61)
    a = de.OdeSystem(rhs, np.array([1.0]), t=(0.0, 1.0), dt=0.25); a.method = "RK4"; a.integrate(events=ev)
    assert len(a.events) == 1 and abs(a.events[0].t - np.arcsin(0.61)) < 1e-9, (s, a.events)
print("ok")
