"""C05: when the stage equations of an implicit method failed to converge while the error estimate alone allowed a LONGER step,
the retry used 0.8 x that longer proposal, clipped only by the step ORIGINALLY requested: the retry could be as long as or longer
than the attempt that had just failed (a rejected step must be retried with a strictly smaller magnitude)."""
import numpy as np, desolver as de
def rhs(t, y): return -y * (1.0 + 4000.0 * max(0.0, abs(t) - 0.7) ** 2)
integ_steps = []
a = de.OdeSystem(rhs, np.array([1.0]), t=(0.0, -1.0), dt=0.2, rtol=1e-5, atol=1e-5); a.method = "RadauIIA5"
real = a.integrator
orig_step = real.step
cur = []
def step(*args, **kw):
    h = kw.get("timestep", args[4] if len(args) > 4 else None)
    cur.append(abs(float(h)))
    return orig_step(*args, **kw)
real.step = step
orig_call = type(real).__call__
def call(self, *args, **kw):
    del cur[:]
    out = orig_call(self, *args, **kw)
    integ_steps.append(list(cur))
    return out
type(real).__call__ = call
try:
    a.integrate()
finally:
    type(real).__call__ = orig_call
bad = [s for s in integ_steps if any(s[i + 1] >= s[i] for i in range(len(s) - 1))]
assert not bad, bad[:3]
print("ok", sum(len(s) > 1 for s in integ_steps), "calls with retries")
