"""C06: every level of a Richardson-extrapolated step restarts its basis integrator from the step's initial state, but the
basis integrator kept the end-of-step slope cached from wherever it stopped last (a rejected attempt, or the un-extrapolated
end of the previous step) and used it as the start slope; the first dense-output piece of such a step had a start slope that
was not the right-hand side at the recorded state (error 0.27, dense error 1e-3 at tolerance 1e-8)."""
import numpy as np, desolver as de
def rhs(t, y): return -y * y
R = de.integrators.generate_richardson_integrator(de.integrators.RK4Solver, richardson_iter=3)
a = de.OdeSystem(rhs, np.array([1.0]), t=(0.0, 2.0), dt=0.25, dense_output=True, rtol=1e-8, atol=1e-8); a.method = R
a.integrate()
for p in a.sol.y_interpolants:
    assert abs(p.m0 - rhs(p.t0, p.p0))[0] < 1e-7 and abs(p.m1 - rhs(p.t1, p.p1))[0] < 1e-7, (float(p.t0), p.m0, rhs(p.t0, p.p0))
assert max(abs(a.sol(q)[0] - 1 / (1 + q)) for q in np.linspace(0, 2, 401)) < 1e-6
print("ok")
