"""C01: RadauIIA3 had a22 = 1/3 (the tableau row must sum to c2 = 1, the correct entry is 1/4);
the method attained order 1 instead of its declared order 3."""
import numpy as np, desolver as de
def rhs(t, y): return -y
errs = []
for h in (0.1, 0.05):
    a = de.OdeSystem(rhs, np.array([1.0]), t=(0.0, 1.0), dt=h, rtol=1e-13, atol=1e-13); a.method = de.integrators.RadauIIA3
    a.integrator  # fixed-step use: clip dt from callbacks
    a.integrate(callback=lambda s, h=h: setattr(s, "dt", h))
    errs.append(abs(a.y[-1][0] - np.exp(-1.0)))
rate = np.log2(errs[0] / errs[1])
assert rate > 2.5, (errs, rate)
print("ok", rate)
