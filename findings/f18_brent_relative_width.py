"""C08/C14: the Brent solvers tested the bracket width against an ABSOLUTE tolerance (4 eps), which is below the spacing of
floating point numbers for |x| >= 4: there the bracket can never be declared converged, so a correctly bracketed root of a
steep function is reported as a failure and every steep event crossing at |t| >= 4 is silently missed."""
import numpy as np, desolver as de
from desolver.utilities.optimizer import brentsroot, brentsrootvec
for x0 in (5.3, 37.1, 1234.5, -77.7):
    for s in (1.0, 1e3, 1e6):
        f = lambda x, s=s, x0=x0: s * (np.exp(x - x0) - 1.0 + 1e-3 * (x - x0))
        r, ok = brentsroot(f, [np.float64(x0 - 1.0), np.float64(x0 + 2.0)])
        assert ok and abs(r - x0) <= 8 * np.spacing(abs(x0)), (x0, s, r, ok)
        rv, okv = brentsrootvec([f], [np.float64(x0 - 1.0), np.float64(x0 + 2.0)])
        assert okv[0] and abs(rv[0] - x0) <= 8 * np.spacing(abs(x0)), (x0, s, rv, okv)
def rhs(t, y): return np.array([y[1], -y[0]])
for (a, b) in ((4.0, 8.0), (20.0, 18.0), (100.0, 102.0)):
    for s in (1.0, 10.0, 1e3, 1e6):
        def ev(t, y, s=s): return s * (y[0] - 0.3)
        sy = de.OdeSystem(rhs, np.array([1.0, 0.0]), t=(a, b), dt=0.1); sy.method = "RK4"; sy.integrate(events=ev)
        g = [ev(t, y) for t, y in zip(sy.t, sy.y)]
        exp = sum(1 for i in range(len(g) - 1) if g[i] * g[i + 1] < 0)
        assert len(sy.events) >= exp, ((a, b), s, exp, len(sy.events))
print("ok")
