"""C20/C16: set_jac_base_order() rebuilt the finite-difference Jacobian around the RAW right-hand side (its evaluations were not
counted in nfev) and with the flat layout, unlike the wrapper jac() itself builds; a Jacobian request at time 0 after it
under-counted nfev and, for array-valued states, returned a differently shaped Jacobian."""
import numpy as np, desolver as de
calls = [0]
def rhs(t, y):
    calls[0] += 1
    return -y * y
w = de.DiffRHS(rhs)
y = np.array([[0.5, 0.25], [1.0, 2.0]])
J1 = w.jac(0.0, y)
w.set_jac_base_order(4)
J2 = w.jac(0.0, y)
assert w.nfev == calls[0], (w.nfev, calls[0])
assert J1.shape == J2.shape == (2, 2, 2, 2), (J1.shape, J2.shape)
print("ok")
