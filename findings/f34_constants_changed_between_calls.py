"""C06: 'system.constants = {...}' between two integrate() calls.  The Runge-Kutta integrators start a step from the slope cached at the end
of the previous one; after the assignment that slope had been evaluated with the OLD constants, so the first dense piece of the continued
call started with a slope that is not f(t, y) at the recorded state (m0 = -0.368 where f = -1.104) and the interpolation error inside
that step was of order h instead of h^4.  Fails before the repair, passes after."""
import numpy as np, desolver as de


def rhs(t, y, k=1.0):
    return -k * y


for meth in ("RK4", "DOPRI45", "RK45CK", "RadauIIA5", "BackwardEuler"):
    s = de.OdeSystem(rhs, y0=np.array([1.0]), t=(0, 2), dt=0.125, dense_output=True, rtol=1e-9, atol=1e-9, constants=dict(k=1.0))
    s.method = meth
    s.integrate(t=1.0)
    n = len(s.t)
    s.constants = dict(k=3.0)
    s.integrate(t=2.0)
    for i, p in enumerate(s.sol.y_interpolants):
        k = 1.0 if i < n - 1 else 3.0
        assert np.array_equal(p.m0, rhs(p.t0, p.p0, k=k)) and np.array_equal(p.m1, rhs(p.t1, p.p1, k=k)), (meth, i, p.m0, rhs(p.t0, p.p0, k=k))
print("ok")
