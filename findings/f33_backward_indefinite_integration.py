"""C09 / C03: an indefinite integration that runs BACKWARD.  integrate(t=-inf, events=[terminal]) - and constructing OdeSystem(t=(t0, -inf)) -
raised OverflowError('cannot convert float infinity to integer'): only +inf was recognised as an indefinite target.  The forward twin
integrate(t=+inf, ...) stops exactly at the terminal event.  Fails before the repair, passes after."""
import numpy as np, desolver as de


def rhs(t, y):
    return np.array([y[1], -y[0]])


for sign in (1.0, -1.0):
    for build in ("target", "span"):
        ev = lambda t, y, s=sign: t - s * 1.25      # noqa
        ev.is_terminal = True
        if build == "span":
            s = de.OdeSystem(rhs, y0=np.array([1.0, 0.0]), t=(0.0, sign * np.inf), dt=0.1, dense_output=True)
            s.method = "RK4"
            s.integrate(events=[ev])
        else:
            s = de.OdeSystem(rhs, y0=np.array([1.0, 0.0]), t=(0.0, sign), dt=0.1, dense_output=True)
            s.method = "RK4"
            s.integrate(t=sign * np.inf, events=[ev])
        assert abs(float(s.t[-1]) - sign * 1.25) < 1e-9 and len(s.events) == 1, (sign, build, s.t[-1])
        assert np.all(np.diff(s.t) * sign > 0)
print("ok")
