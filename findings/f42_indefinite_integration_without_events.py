"""C03 / C12: integrate(t=inf) with NO event functions - the library means to warn ("Specifying an indefinite integration time with no terminal
events can lead to memory issues") and go on until something (a callback, an error, the user) stops the run; instead 'any(is_terminal)' was
applied to None and the call raised TypeError before taking a step.  Found by the spec -> code replay when the design model's targets were
extended by +-Infinity.  Fails before the repair, passes after."""
import warnings
import numpy as np, desolver as de


class Stop(Exception):
    pass


for sign in (1.0, -1.0):
    s = de.OdeSystem(lambda t, y: -y, y0=np.array([1.0]), t=(0.0, sign), dt=0.25)
    s.method = "RK4"

    def cb(system):
        if len(system.t) > 6:
            raise Stop("enough")
    with warnings.catch_warnings(record=True) as w:
        warnings.simplefilter("always")
        try:
            s.integrate(t=sign * np.inf, callback=[cb])
            raise AssertionError("the run cannot end by itself")
        except de.exception_types.FailedIntegration as e:
            assert isinstance(e.__cause__, Stop), repr(e.__cause__)
    assert any("indefinite" in str(x.message) for x in w), [str(x.message) for x in w]
    assert len(s.t) == 7 and np.all(np.diff(s.t) * sign > 0), s.t
print("ok")
