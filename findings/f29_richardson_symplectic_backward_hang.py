"""C03/C05: a Richardson wrapper of a splitting (symplectic) method chooses its next step by halving / doubling with SIGNED comparisons;
on a backward span (negative step) the doubling loop `while (0.8 new + 0.2 h) > 2 next: next *= 2` never ends: integrate() hangs.
The run below must terminate, reach the target and be as accurate as the forward run of the time-reflected problem."""
import signal
import numpy as np, desolver as de
from desolver import integrators


def alarm(*a):
    raise AssertionError("integrate() did not return within 60 s")


signal.signal(signal.SIGALRM, alarm)
rhs = lambda t, y: np.stack([y[1], -y[0]])
for base in (integrators.ABAs5o6HSolver, integrators.BABs9o7HSolver):
    M = integrators.generate_richardson_integrator(base, richardson_iter=2)
    res = {}
    for tf in (2.0, -2.0):
        s = de.OdeSystem(rhs, y0=np.array([1.0, 0.0]), t=(0.0, tf), dt=0.01, rtol=1e-8, atol=1e-8)
        s.method = M
        signal.alarm(60)
        s.integrate()
        signal.alarm(0)
        assert s.success and abs(s.t[-1] - tf) < 1e-12 and np.all(np.diff(s.t) * np.sign(tf) > 0)
        ex = np.array([np.cos(tf), -np.sin(tf)])
        res[tf] = np.max(np.abs(s.y[-1] - ex))
        assert res[tf] < 1e-5, (base.__name__, tf, res[tf])
print("ok")
