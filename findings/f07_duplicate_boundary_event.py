"""C07: duplicate suppression was indexed by the position of an event in the list of events active
in the current step instead of by the event itself, so a root on a step boundary was recorded by both
adjacent steps whenever the set of active events differed between them."""
import numpy as np, desolver as de
def rhs(t, y): return -y
def tev(c):
    def ev(t, y): return t - c
    return ev
a = de.OdeSystem(rhs, np.array([1.0]), t=(0.0, 1.0), dt=0.25, dense_output=True); a.method = "RK4"
a.integrate(events=[tev(0.5), tev(0.6), tev(0.75), tev(0.8)])
ts = [float(e.t) for e in a.events]
assert ts == [0.5, 0.6, 0.75, 0.8], ts
print("ok")
