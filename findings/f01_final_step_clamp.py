"""C04/C03: the final-step test compared |t+dt| with |tf|, so whenever |tf| < |t| the very first
step was clamped to the whole remaining span (one giant step)."""
import numpy as np, desolver as de
def rhs(t, y): return -y
a = de.OdeSystem(rhs, np.array([1.0]), t=(-5.0, 1.0), dt=0.5); a.method = "RK4"; a.integrate()
steps = np.diff(a.t)
assert len(a.t) == 13 and np.all(np.abs(steps) <= 0.5 + 1e-12), ("giant step", a.t)
b = de.OdeSystem(rhs, np.array([1.0]), t=(0.0, 1.0), dt=0.25); b.method = "RK4"; b.integrate(1.0); b.integrate(0.0)
assert np.all(np.abs(np.diff(b.t)) <= 0.25 + 1e-12), ("giant backward step", b.t)
print("ok")
