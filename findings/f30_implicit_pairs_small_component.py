"""C05 (known finding, not repaired): the adaptive implicit pairs (RadauIIA5, LobattoIIIC4) lose the small component of a system whose
components differ in magnitude.  System (spec/Accuracy.tla, problem "pair"):
    y1' = -y1 y2,  y2' = -y2^2,  y3' = -2 t y3^2 / A,   y(0) = (3, 1, A),  A = 2^-20
    => y(T) = (3/(1+T), 1/(1+T), A/(1+T^2)).
With rtol = 1e-6, atol = 1e-15 the explicit pairs return every component within ONE unit of atol + rtol|y_i| (the controller's error
norm is component-wise), RadauIIA5 / LobattoIIIC4 return y3 with an error of 500..3000 units and need 100..2000 steps where the explicit
pairs need 3..50.  Cause: RungeKuttaIntegrator.step solves the stage equations to ONE scalar tolerance
`0.5 * max(atol + max|rtol * y|)`, i.e. to the tolerance of the LARGEST component, in the norm of the whole residual; the stage slopes of
the component of size 1e-6 are therefore only solved to an absolute 1.5e-6 (rtol 1e-6), far above their own value, and the embedded
estimate of that component is the solver's noise.  Not repaired: a component-wise convergence test changes the stage solve (and so every
step sequence) of all sixteen implicit methods and goes through scipy's MINPACK front-end, which takes one scalar tolerance.
This script demonstrates it; it exits 0 while the finding is present."""
from fractions import Fraction
import numpy as np, desolver as de, warnings
warnings.simplefilter("ignore")
A = 2.0 ** -20
f = lambda t, y: np.stack([-y[0] * y[1], -y[1] * y[1], -2 * t * y[2] * y[2] * 1048576.0])
T, rtol, atol = 0.5, 1e-6, 1e-15
exact = [Fraction(3) / (1 + Fraction(T)), Fraction(1) / (1 + Fraction(T)), Fraction(A) / (1 + Fraction(T) ** 2)]
worst = {}
for m in ("RK45CK", "RK87", "RadauIIA5", "LobattoIIIC4"):
    s = de.OdeSystem(f, np.array([3.0, 1.0, A]), t=(0.0, T), dt=0.25, rtol=rtol, atol=atol)
    s.method = m
    s.integrate()
    units = [float(abs(Fraction(float(y)) - e) / (Fraction(atol) + Fraction(rtol) * abs(e))) for y, e in zip(s.y[-1], exact)]
    worst[m] = max(units)
    print("%-13s steps=%4d  error in units of atol + rtol|y_i|: %s" % (m, len(s.t) - 1, ["%.1f" % u for u in units]))
assert worst["RK45CK"] < 10 and worst["RK87"] < 10, "explicit pairs no longer accurate on this problem?"
assert worst["RadauIIA5"] > 100 and worst["LobattoIIIC4"] > 100, "finding no longer present"
print("finding present")
