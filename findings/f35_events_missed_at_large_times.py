"""C08: where the times are large compared with the step, a state event that changes sign inside an accepted step is not reported.
handle_events() reads the direction of a crossing from probes a fraction (eps^0.5, eps^0.75) of the step to either side of the root; at
t = 1e8 with dt = 0.1 (double) or t = 3000 with dt = 0.05 (single) that offset is below the spacing of the times, both probes fall on
the root, the crossing is 'neither rising nor falling' and is dropped.  Fails before the repair, passes after."""
import numpy as np, desolver as de

missed = []
for dtype, t0, dt in ((np.float64, 1e8, 0.1), (np.float64, -1e9, 0.1), (np.float32, 3000.0, 0.05), (np.float64, 0.0, 0.1)):
    for meth in ("RK4", "RK45CK"):
        for dense in (True, False):
            s = de.OdeSystem(lambda t, y: np.array([y[1], -y[0]]), y0=np.array([1.0, 0.0], dtype=dtype), t=(dtype(t0), dtype(t0 + 3)),
                             dt=dtype(dt), rtol=1e-5, atol=1e-5, dense_output=dense)
            s.method = meth
            s.integrate(events=[lambda t, y: y[0] - 0.3])
            g = s.y[:, 0] - 0.3
            crossings = int(np.sum(np.sign(g[:-1]) * np.sign(g[1:]) < 0))
            if len(s.events) < crossings:
                missed.append((dtype.__name__, t0, meth, dense, crossings, len(s.events)))
assert not missed, "sign changes inside accepted steps without a reported event: %r" % (missed,)
print("ok")
