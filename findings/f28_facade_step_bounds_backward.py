"""C18: solve_ivp(..., max_step=h) (or min_step) on a backward span: the facade's step-bounding callback clipped the SIGNED step to
[min_step, max_step] = [0, h]; a negative step became 0, the loop of integrate() ended after one step, and the result was returned as
"Integration completed successfully" with t[-1] far from the requested end."""
import numpy as np, desolver as de
for method in ("RK45", "RK4"):
    for kw in ({"max_step": 0.1}, {"min_step": 1e-6, "first_step": 0.1}, {"max_step": 0.05, "min_step": 1e-6}):
        r = de.solve_ivp(lambda t, y: -y, (1.0, 0.0), np.array([1.0]), method=method, **kw)
        assert r.success and abs(r.t[-1]) < 1e-12, (method, kw, r.t[-1], len(r.t))
        assert np.all(np.diff(r.t) < 0) and abs(float(r.y[0, -1]) - np.e) < 1e-4, (method, kw, r.y[0, -1])
        if "max_step" in kw:
            assert np.max(np.abs(np.diff(r.t))) <= kw["max_step"] * (1 + 1e-12)
print("ok")
