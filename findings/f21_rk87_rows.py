"""C01: RK8713M ("RK87", declared order 8) propagated the solution with the 7th-order weights of the Prince-Dormand
pair: the two rows of tableau_final were in the wrong order (row 0 is the propagating row everywhere else), so the method
attained order 7 only."""
import numpy as np, desolver as de
def rhs(t, y): return np.array([y[1], -y[0]])
def one_step_err(h):
    integ = de.integrators.RK8713MSolver((2,), dtype=np.dtype("float64"), rtol=1e300, atol=1e300)
    dt, (dT, dY) = integ(de.DiffRHS(rhs), np.float64(0.0), np.array([1.0, 0.0]), {}, np.float64(h))
    return np.max(np.abs(np.array([1.0, 0.0]) + dY - np.array([np.cos(h), -np.sin(h)])))
e1, e2 = one_step_err(0.8), one_step_err(0.4)
local_order = np.log2(e1 / e2)      # local error ~ h^(p+1)
assert local_order > 8.5, (e1, e2, local_order)
print("ok", local_order)
