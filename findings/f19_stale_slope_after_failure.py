"""C12/C06: when a user callable raised during the RETRY of a rejected adaptive step, the integrator kept the end-of-step
slope of the rejected attempt as its cached slope; the resumed integrate() call then used it as the start slope of the next
step, so the dense output of the first resumed step was wrong (its start slope was not the right-hand side at the recorded state)."""
import numpy as np, desolver as de
n = [0]
def rhs(t, y):
    n[0] += 1
    if n[0] == 15: raise RuntimeError("boom")
    return -y * y
a = de.OdeSystem(rhs, np.array([1.0]), t=(0.0, 2.0), dt=0.25, dense_output=True, rtol=1e-8, atol=1e-8); a.method = "RK45CK"
try:
    a.integrate()
except de.exception_types.FailedIntegration:
    pass
a.integrate()
p = a.sol.y_interpolants[0]
assert np.array_equal(p.m0, -a.y[0] * a.y[0]), (p.m0, -a.y[0] * a.y[0])
mid = 0.5 * (a.t[0] + a.t[1])
h = a.t[1] - a.t[0]
assert abs(a.sol(mid)[0] - 1.0 / (1.0 + mid)) < h ** 4, (a.sol(mid), 1.0 / (1.0 + mid), h)
print("ok")
