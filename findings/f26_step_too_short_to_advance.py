"""C05/C03: a right-hand side that is undefined beyond |t| = 1/2 cannot be integrated to t = 1: an error must be raised.  Once an
overflowed attempt no longer poisons its retries (f25) the run crept up to one rounding unit below the wall and then accepted steps
too short to change the time (t + dt == t): the same row was recorded again and again without end."""
import numpy as np, desolver as de
for m in ("RK45CK", "RK87", "AHE"):
    for tf in (1.0, -1.0):
        calls = [0]
        def f(t, y):
            calls[0] += 1
            if calls[0] > 200000:
                raise KeyboardInterrupt
            return -y if abs(t) < 0.5 else np.nan * y
        s = de.OdeSystem(f, y0=np.array([1.0]), t=(0.0, tf), dt=0.125, rtol=1e-6, atol=1e-6)
        s.method = m
        try:
            s.integrate()
            raise AssertionError("no error raised")
        except de.exception_types.FailedIntegration as e:
            assert isinstance(e.__cause__, de.exception_types.FailedToMeetTolerances), repr(e.__cause__)
        t = np.array(s.t)
        assert np.all(np.diff(t) * np.sign(tf) > 0) and np.all(np.isfinite(s.y)) and abs(t[-1]) < 0.5
print("ok")
