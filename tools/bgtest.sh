#!/bin/bash
# usage: bgtest.sh <label>   -- run the repo test-suite on a scratch worktree of /repo HEAD, remove it afterwards
L=$1
WT=/tmp/wt_$L
git -C /repo worktree add -f --detach $WT HEAD >/dev/null 2>&1
cd $WT
/venv/bin/python -c "import desolver,sys; print(desolver.__file__)" 2>/dev/null
/venv/bin/python -m pytest -q -p no:cacheprovider --timeout=900 -n 8 -x 2>&1 | tail -6
cd /
git -C /repo worktree remove --force $WT
echo "DONE $L"
