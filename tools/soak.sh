#!/bin/bash
# usage: soak.sh <tier> "<seeds>" <ids...>  -- run checks for several seeds on the current tree, report anything that is not a clean pass
tier=$1; seeds=$2; shift 2
for id in "$@"; do for sd in $seeds; do
  out=$(VERIF_SEED=$sd bin/check $id --tier $tier 2>&1); rc=$?
  echo "$id seed=$sd rc=$rc $(echo "$out" | grep -c '^VIOLATION') violations; $(echo "$out" | tail -1 | cut -c1-200)"
  [ $rc != 0 ] && echo "$out" | grep "^VIOLATION\|MACHINERY" | head -5 | cut -c1-400
done; done
