#!/bin/bash
# usage: seedtest.sh <patch.diff> <Cxx> [Cyy ...]   -- apply a seeded change to /repo, run the quick checks, undo it
P=$(readlink -f "$1"); shift
git -C /repo apply "$P" || { echo "PATCH DOES NOT APPLY: $P"; exit 3; }
trap 'git -C /repo checkout -- .' EXIT
for c in "$@"; do
  out=$(cd /verif && bin/check $c --tier quick 2>/dev/null)
  rc=$?
  nv=$(echo "$out" | grep -c "^VIOLATION")
  echo "  $c rc=$rc violations=$nv $(echo "$out" | grep "^VIOLATION" | sed 's/.*clause=\([^ ]*\).*/\1/' | sort | uniq -c | sort -rn | head -4 | tr '\n' ';')"
  [ $rc = 2 ] && echo "$out" | tail -5
done
