#!/bin/bash
# usage: curate_some.sh <streams> <name...>  -- curate the named seeded/incoming/<name> (full confirmation unless NOSUITE=1), <streams> in parallel
cd /verif
declare -A EXTRA=( [C13_m3]="C13 C16" [C12_m1]="C12 C05" [C12_m3]="C12 C13" [C20_m1]="C20 C16" [C19_m3]="C19 C06" [C04_m3]="C04 C03 C05" [C11_m2]="C11 C02" [C11_m3]="C11 C05" [C08_m3]="C08 C07" [C02_m2]="C02 C11" [C01_r2m2]="C01 C02" [C13_r2m2]="C13 C16" [C11_r2m2]="C11 C05" [C04_r2m1]="C04 C03" )
S=$1; shift
run_one() {
  n=$1
  d=seeded/incoming/$n
  if [[ $n == FIXREV_* ]]; then checks=$(python3 -c "import json;print(json.load(open('$d/meta.json'))['checks'])"); else p=${n%%_*}; checks=${EXTRA[$n]:-$p}; fi
  if [ -f $d/checks.txt ]; then checks=$(cat $d/checks.txt); fi
  tools/curate.sh $n $d/patch.diff $d/demo.py $checks >> seeded/curation.log 2>&1
}
names=("$@")
for k in $(seq 0 $((S-1))); do
  ( i=0; for n in "${names[@]}"; do if [ $(( i % S )) -eq $k ]; then run_one $n; fi; i=$((i+1)); done ) &
done
wait
echo "CURATION DONE (${#names[@]} named${NOSUITE:+, detection pass})" >> seeded/curation.log
