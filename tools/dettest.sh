#!/bin/bash
# usage: dettest.sh <name> <check ids...>   -- detection only, in a private scratch worktree (does not clash with a running curation)
NAME=$1; shift
W=/tmp/det_$NAME; O=/tmp/det_${NAME}_out
rm -rf $O; mkdir -p $O
git -C /repo worktree add -f --detach $W HEAD >/dev/null 2>&1 || { echo "$NAME worktree-failed"; exit 2; }
trap 'cd /; git -C /repo worktree remove --force '$W' >/dev/null 2>&1; rm -rf '$O EXIT
cd $W
git apply /verif/seeded/incoming/$NAME/patch.diff 2>/dev/null || { echo "$NAME applies=no"; exit 3; }
DET=""
for c in "$@"; do
  out=$(cd /verif && VF_REPO=$W VF_OUT_ROOT=$O bin/check $c --tier quick 2>/dev/null)
  rc=$?
  cl=$(echo "$out" | grep "^VIOLATION" | sed 's/.*clause=\([^ ]*\).*/\1/' | sort | uniq -c | sort -rn | head -6 | awk '{print $2"("$1")"}' | tr '\n' ',')
  DET="$DET $c:rc=$rc:$cl"
done
echo "DET $NAME [$DET]"
