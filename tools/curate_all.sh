#!/bin/bash
# curate every seeded/incoming/<name>: two parallel streams; results appended to seeded/curation.log
cd /verif
declare -A EXTRA=( [C13_m3]="C13 C16" [C12_m1]="C12 C05" [C12_m3]="C12 C13" [C20_m1]="C20 C16" [C19_m3]="C19 C06" [C04_m3]="C04 C03 C05" [C11_m2]="C11 C02" [C11_m3]="C11 C05" [C08_m3]="C08 C07" [C02_m2]="C02 C11" [C01_r2m2]="C01 C02" [C13_r2m2]="C13 C16" [C11_r2m2]="C11 C05" [C04_r2m1]="C04 C03" )
run_one() {
  n=$1
  d=seeded/incoming/$n
  if [[ $n == FIXREV_* ]]; then checks=$(python3 -c "import json;print(json.load(open('$d/meta.json'))['checks'])"); else p=${n%%_*}; checks=${EXTRA[$n]:-$p}; fi
  tools/curate.sh $n $d/patch.diff $d/demo.py $checks >> seeded/curation.log 2>&1
}
names=($(ls seeded/incoming | sort))
# three parallel streams (every third name each)
for k in 0 1 2; do
  ( i=0; for n in "${names[@]}"; do if [ $(( i % 3 )) -eq $k ]; then run_one $n; fi; i=$((i+1)); done ) &
done
wait
echo "CURATION DONE${NOSUITE:+ (detection pass)}" >> seeded/curation.log
