#!/usr/bin/env python3
"""Regenerates MANIFEST.json from the table below (single source of truth)."""
import json, os
ROOT = os.path.dirname(os.path.dirname(os.path.abspath(__file__)))
props = [json.loads(l) for l in open(os.path.join(ROOT, "properties.jsonl"))]

CHECKS = {
 "C17": dict(
    level="model_checking",
    text="TLC checks the bisection loop (one action per iteration) against Lookup!Bisect on all 501 arrays x 21 queries and the exact integer Hermite identities on the whole small scope; the same TLC-generated cases are then executed on the real search_bisection / search_bisection_vec / CubicHermiteInterp and every observation, and the completeness of the enumeration, is decided by the TLA+ judges. The property is a finite-scope statement, so exhaustive enumeration is the right level.",
    note="Trusted: TLC, exact Fraction conversion of IEEE values, the unit bound HermiteUnits=32 (eps x condition scale) in spec/Bounds.tla. float16 / torch not covered.",
    technique="TLC exhaustive small-scope model + TLC-generated cases replayed into the code, judged by TLA+ (LookupJudge, HermiteJudge)",
    design="6/C17"),
}

NOT_YET = "check not built yet (work in progress, see DESIGN.md section 11)"

def main():
    checks = []
    na = []
    for p in props:
        pid = p["id"]
        c = CHECKS.get(pid)
        if not c:
            na.append({"property_id": pid, "reason": NOT_YET})
            continue
        checks.append({
            "property_id": pid,
            "quick_cmd": "bin/check %s --tier quick" % pid,
            "thorough_cmd": "bin/check %s --tier thorough" % pid,
            "evidence_file": "/verif/evidence/%s.json" % pid,
            "replay_cmd_template": "bin/check %s --replay {path}" % pid,
            "engine": "tlc-judge",
            "level_claimed": {"category": c["level"], "text": c["text"], "design_ref": c["design"]},
            "level_note": c["note"],
            "technique": c["technique"],
        })
    m = {
        "version": 1,
        "setup_cmd": "bin/setup",
        "hooks": {"guard": "DESOLVER_VERIF",
                  "enable": "no source hooks are needed: lib/vf observes from outside (subclassing OdeSystem, wrapped user callables, patched module collaborators); DESOLVER_VERIF is reserved and currently unused",
                  "baseline_off_cmd": "cd /repo && /venv/bin/python -m pytest -ra -q -p no:cacheprovider --timeout=900 --continue-on-collection-errors",
                  "source_commits": [], "add_only": True},
        "engines": [{"name": "tlc-judge", "path": "lib/vf/core.py",
                     "serves_properties": sorted(CHECKS.keys()),
                     "kind_free_text": "explicit TLA+ specifications in spec/ checked with TLC (design level), TLC-generated cases/behaviours replayed into the real code and traces of the real code validated by TLA+ judge/monitor modules"}],
        "checks": checks,
        "notes": "bin/check <id> [--tier quick|thorough] [--replay path]; exit 0 ok / 1 VIOLATION / 2 machinery failure. Known findings: known_findings.json.",
        "not_applicable": na,
    }
    json.dump(m, open(os.path.join(ROOT, "MANIFEST.json"), "w"), indent=1)
    print("manifest: %d checks, %d not applicable" % (len(checks), len(na)))

if __name__ == "__main__":
    main()
