#!/usr/bin/env python3
"""Regenerates MANIFEST.json from the table below (single source of truth)."""
import json, os
ROOT = os.path.dirname(os.path.dirname(os.path.abspath(__file__)))
props = [json.loads(l) for l in open(os.path.join(ROOT, "properties.jsonl"))]

CHECKS = {
 "C17": dict(
    level="model_checking",
    text="TLC checks the bisection loop (one action per iteration) against Lookup!Bisect on all 501 arrays x 21 queries and the exact integer Hermite identities on the whole small scope; the same TLC-generated cases are then executed on the real search_bisection / search_bisection_vec / CubicHermiteInterp and every observation, and the completeness of the enumeration, is decided by the TLA+ judges. The property is a finite-scope statement, so exhaustive enumeration is the right level.",
    note="Trusted: TLC, exact Fraction conversion of IEEE values, the unit bound HermiteUnits=32 (eps x condition scale) in spec/Bounds.tla. float16 / torch not covered.",
    technique="TLC exhaustive small-scope model + TLC-generated cases replayed into the code, judged by TLA+ (LookupJudge, HermiteJudge)",
    design="6/C17"),
 "C03": dict(level="model_checking",
    text="TLC explores the OdeSystem.tla design model (integrate loop with clamp, direction fixing, halving, continuation, events, faults) exhaustively on small tick ranges for every sign/direction pattern and checks FirstRowIsInitial, SegmentMonotone, EndsAtTarget, NoOvershootOnCommit, Progress; every execution of the real OdeSystem over a lattice of families x placements x dt x call sequences is recorded by a zero-hook sensor and validated event by event against the TLA+ monitor OdeTrace.tla (clauses C03.*), which re-derives the committed rows and compares them with the public state. In the other direction TLC (-simulate, OdeSystemSim.tla) produces behaviours of the design model - API script, callback assignments, crash points - that are replayed on the real code with explicit and splitting fixed-step methods; the projected state (rows, step, status) must equal the model's prediction at every API return (exactly, times being dyadic).",
    note="Trusted: TLC; exact interning of floats to ranks/ids (fractions.Fraction); EndUnits=32 / UlpFew=4 in spec/Bounds.tla. The model abstracts time to integer ticks and states to step provenance. float16/torch not covered.",
    technique="TLA+ design model checked by TLC + trace validation of the real code against a TLA+ monitor (OdeTrace.tla) + replay of TLC-simulated model behaviours into the real code", design="6/C03"),
 "C04": dict(level="model_checking",
    text="OdeSystem.tla: FixedStepsEqualDt, FixedDtKeptBetweenSteps, NoOvershootOnCommit for every placement of the span (the deviations absFinalClamp / dirFromSystemSpan / clampAdoptsDt / landingStepCarriedOver are shown to violate them; OdeSystem_landing.cfg puts a terminal root strictly inside a clamped last step: the landing call does not change the step in force); traces of all fixed-step families are validated by OdeTrace.tla (C04.* clauses: step is dt or the exact remainder, never longer, clamp only when needed, returned step and next step equal the request, implicit methods shorten only after a failed stage solve); shift and reflection twins are compared by TwinJudge.tla. In the other direction TLC (-simulate, IntegratorSim.tla) produces behaviours of Integrator.tla - calls, the step of every attempt, the controller's verdicts, retries, giving up, injected faults - that are replayed on real integrator objects through the public adaptation_fn hook; attempted steps, the step handed back, the proposed next step, the raised error and the owner of the cached end slope must be the model's.",
    note="Twin runs use dyadic shifts and steps so time arithmetic is exact; state bounds TwinRoundingUnitsPerStep=16 / TwinTolUnits=100 in spec/Bounds.tla.",
    technique="TLC model checking + trace validation (OdeTrace.tla) + twin-run judge (TwinJudge.tla) + replay of TLC-simulated Integrator.tla behaviours into real integrator objects", design="6/C04"),
 "C05": dict(level="model_checking",
    text="OdeSystem.tla with an adaptive environment integrator (shorter returned steps, proposed next steps) is model-checked for overshoot/progress; the attempt protocol of every integrator call in traces of the 9 embedded pairs and Richardson wrappers (both directions, dt0 from 1e-4 to 3x span, tolerances 1e-3..1e-11) is validated by OdeTrace.tla (retry strictly shrinks with the same sign, a rejected or unconverged attempt is never returned, an accepted step is never dropped, unmet tolerances raise with only finite states recorded); accuracy is decided by Accuracy.tla on problems whose rational solutions the specification supplies. In the other direction TLC (-simulate, IntegratorSim.tla) produces behaviours of Integrator.tla - calls, the step of every attempt, the controller's verdicts, retries, giving up, injected faults - that are replayed on real integrator objects through the public adaptation_fn hook; attempted steps, the step handed back, the proposed next step, the raised error and the owner of the cached end slope must be the model's.",
    note="Accuracy on rational-solution problems only (TLC cannot supply exp/sin); ModestK=10 x amplification bound. Random linear systems not covered.",
    technique="TLC model checking + trace validation (OdeTrace.tla) + spec-supplied exact solutions (Accuracy.tla) + replay of TLC-simulated Integrator.tla behaviours into real integrator objects", design="6/C05"),
 "C09": dict(level="model_checking",
    text="OdeSystem.tla: TerminalStop, PiecesAreSteps, SegmentMonotone with roots in interiors, on boundaries and at the start, nested landing call, continuation and faults (deviations keepRolledBackPiece / frontInsert violate PiecesAreSteps); traces with mixes of terminal/non-terminal events, infinite targets, both directions, continuation are validated by OdeTrace.tla incl. the ground truth defined by the scenario (earliest terminal root along the direction). In the other direction TLC (-simulate, OdeSystemSim.tla) produces behaviours of the design model - API script, callback assignments, crash points - that are replayed on the real code with explicit and splitting fixed-step methods; the projected state (rows, step, status, events, dense pieces) must equal the model's prediction at every API return (exactly, times being dyadic).",
    note="Ground truth for time events only; state events on protocol clauses. Continuation does not re-arm the stopping event.",
    technique="TLC model checking + trace validation (OdeTrace.tla) + replay of TLC-simulated model behaviours into the real code", design="6/C09"),
 "C20": dict(level="model_checking",
    text="At every event of every trace OdeTrace.tla compares nfev with the independent count of completed user right-hand-side calls since construction/reset and njev with the count of Jacobian requests, and checks the callback protocol (order, exactly once per recorded outer step, after the row is visible, assigned dt adopted, none inside the terminal landing); two systems built from one DiffRHS are checked to count separately (TwinJudge.tla).",
    note="Counters come from wrappers installed by the sensor (WrappedRhs, a logging DiffRHS subclass).",
    technique="trace validation against a TLA+ monitor (OdeTrace.tla), TLC design model", design="6/C20"),
 "C06": dict(level="model_checking",
    text="OdeSystem.tla: PiecesAreSteps in every reachable state (roll-back, landing on a terminal event, continuation, failure, both directions; deviations keepRolledBackPiece/frontInsert violate it). On the real code OdeTrace.tla tracks the piece list through every add/remove and compares it with the recorded steps; DenseJudge.tla decides, from exact facts sensed on the real solution object, that every grid/mid/quarter-point query is answered by the piece whose interval contains it (the serving piece is observed through a recording proxy), recorded states are reproduced bit for bit (tolerance for Richardson wrappers), scalar and array queries agree, end slopes equal the right-hand side at the piece's end states bit for bit, pieces join, and the mid-step error on rational-solution problems stays within a constant of h^4 M4/384 plus the integrator's error. In the other direction TLC (-simulate, OdeSystemSim.tla) produces behaviours of the design model - API script, callback assignments, crash points - that are replayed on the real code with explicit and splitting fixed-step methods; the projected state (rows, step, status, dense pieces) must equal the model's prediction at every API return (exactly, times being dyadic).",
    note="Histories may turn round (integrate(t) against an earlier call): the lookup of the container model (DenseModel.tla, instantiated by OdeSystem.tla: the transcribed bisections, most recent containing piece once pieces of both orientations are stored) is checked by TLC (QueriesAnsweredByContainingStep, ScalarAndArrayQueriesAgree; deviation bisectAfterTurn violates them) and the model's lookup table is replayed on the real container; constants replaced or edited in place between calls are part of the histories. A grid query is exempt from bit-for-bit reproduction only where passes overlap and the recorded state at that time is not unique. O(h^4) clause on the two rational-solution problems only. Bounds in spec/Bounds.tla.",
    technique="TLC model checking + trace validation (OdeTrace.tla) + fact judge (DenseJudge.tla) + replay of TLC-simulated model behaviours into the real code", design="6/C06"),
 "C07": dict(level="model_checking",
    text="OdeSystem.tla: EventsAreRoots, NoEventTwice (boundary roots shared by two steps / two events; deviation dedupByPosition violates it), TerminalStop. Every scenario of the event lattice (time/state/derivative events, scales 1e-18..1e6, directions, up to 6 simultaneous events, interior/boundary/last-ulp/unrepresentable roots, all families, both directions, dense on/off) is traced: OdeTrace.tla checks each recorded event inside its step, ordered along the direction, unique; EventJudge.tla decides residual, equality with the dense solution, distance to the true root, direction compatibility and uniqueness against the ground truth the scenario defines. In the other direction TLC-simulated behaviours of the design model with events (OdeSystemSim.tla: boundary roots shared by two steps, two functions crossing in one step in either order, terminal after non-terminal, continuation calls) are replayed on the real code; the reported events must be the model's, in its order.",
    note="True-root distance for time events and for state events on y'=-y^2 only; direction is read along the run (the pinned library's and scipy's reading), on backward runs too.",
    technique="TLC model checking + trace validation (OdeTrace.tla) + fact judge (EventJudge.tla) + replay of TLC-simulated model behaviours into the real code", design="6/C07"),
 "C08": dict(level="model_checking",
    text="The antecedent of the property is observed directly: every event function is evaluated at every pair of consecutive recorded rows; EventJudge.tla requires for every strict sign change (with a direction the function requests) at least one recorded event of that function inside that step, and for time events that every root the scenario defines inside the integrated range is reported; scales over 24 decades, both directions, large |t|, dense on/off, 1..6 events; design-level model as C07. In the other direction TLC-simulated behaviours of the design model with events (OdeSystemSim.tla: boundary roots shared by two steps, two functions crossing in one step in either order, terminal after non-terminal, continuation calls) are replayed on the real code; the reported events must be the model's, in its order.",
    note="With a requested direction a backward crossing is not demanded (the two readings of 'direction' disagree there).",
    technique="TLC model checking + fact judge (EventJudge.tla) over traces of the real code + replay of TLC-simulated model behaviours into the real code", design="6/C08"),
 "C12": dict(level="fault_enumeration",
    text="Every position k of the failing call among all right-hand-side / event / callback invocations of short runs is a separate execution of the real code (all k up to a cap, else first/last and a seeded sample), with second faults, KeyboardInterrupt, resume and reset; each trace is validated by OdeTrace.tla (error type and cause chain, status, trimmed paired finite prefix that equals the committed rows, dense pieces exactly those steps, resume reaches the target, reset pristine) and the resumed result is compared with the undisturbed run by TwinJudge.tla; OdeSystem.tla with FAULTS=TRUE lets TLC visit every crash point of every short history at design level. In the other direction TLC (-simulate, OdeSystemSim.tla) produces behaviours of the design model - API script, callback assignments, crash points - that are replayed on the real code with explicit and splitting fixed-step methods; the projected state (rows, step, status, events, dense pieces, raised error and its cause) must equal the model's prediction at every API return (exactly, times being dyadic).",
    note="Faults are injected through wrapped user callables only. Bit-for-bit resume only for fixed-step explicit/splitting runs without events/callbacks, tolerance elsewhere.",
    technique="exhaustive crash-point enumeration on the real code judged by TLA+ (OdeTrace.tla, TwinJudge.tla) + TLC design model with a Fault action whose simulated behaviours are replayed into the real code", design="6/C12"),
 "C13": dict(level="model_checking",
    text="OdeSystem.tla: ResetRestores for every reachable prior state and CallAtTargetChangesNothing (deviation resetKeepsEvents violates it). Histories over {integrate(), integrate(t), set dt/rtol/atol/method/tf, set_kick_vars, events, faults} followed by reset() are traced and validated by OdeTrace.tla (C13.*), and the suffix is re-run on a freshly constructed twin: TwinJudge.tla requires rows, mid-step dense values and events to be identical bit for bit; splits of the span at grid points must reproduce the unsplit run.",
    note="The twin is built with the constructor arguments plus the tolerance/method/tf/kick settings the history applied. njev across reset not compared.",
    technique="TLC model checking + trace validation (OdeTrace.tla) + twin-run judge (TwinJudge.tla)", design="6/C13"),
 "C19": dict(level="model_checking",
    text="LookupIdx.tla: TLC checks the reference operators IndexInt / NearestRows on every increasing and decreasing grid of the small scope; on grids produced by real runs (uniform, callback-made non-uniform, adaptive, backward, after continuation with an intermediate user lookup, dense on/off) every integer index in [-len-2, len+2], iteration, len, ~5 query times per step plus 4 outside and spanning slices are executed and decided by GetItemJudge.tla against those operators (distances as exact rationals).",
    note="Ties in nearest-sample lookup may be answered by either neighbour; slices are taken along the run.",
    technique="TLC small-scope model + exhaustive per-grid replay judged by TLA+ (GetItemJudge.tla)", design="6/C19"),
 "C01": dict(level="model_checking",
    text="RootedTrees.tla enumerates all rooted trees up to order 8 (10 in thorough) with their order and gamma (TLC checks counts, canonicity, extreme gammas); Richardson.tla decides the order of every Aitken-Neville entry for base orders 1..8 and 2..5 levels in exact modular arithmetic (NeverLowerThanBase, StrictlyHigherWithThreeLevels, OrderFormula; two deviations violate them). The tree table is handed to the actuator which takes ONE REAL STEP of every shipped method (and of Richardson wrappers, 2..5 levels) on the tree system y_tau' = prod y_children: component tau equals h^|tau| sum b_i Phi_i(tau), so the order condition holds iff it equals the table's h^|tau|/gamma. OrderJudge.tla decides every method and that every tree was exercised; splitting methods run on the alternating bicoloured tree system; embedded weights must integrate the order-1 tree.",
    note="Trusted: the B-series theorem (order conditions <=> local error O(h^(p+1)) for all smooth f), TLC, exact Fractions. Orders above the cap (RK1412, RK108 in quick, RadauIIA19) are checked up to the cap only; the measured 2^p convergence rate is not claimed. Known finding: ABAs5o6H / BABs9o7H (generalised order schemes) attain order 4 on general separable systems.",
    technique="TLC-generated rooted-tree obligations executed as one real step per method, judged by TLA+ (OrderJudge.tla); Richardson tableau algebra model-checked", design="6/C01"),
 "C02": dict(level="model_checking",
    text="Integrator.tla model-checks the call protocol (cached slope, attempts, controller and stage-solve verdicts, shrinking retries, give-up) under every environment choice; RKDataflow.tla is the reference stage dataflow: with a right-hand side scripted to return unit vectors and h = +-1 every operation of the stage loop is exact, so two consecutive real steps of every explicit method x dtype are compared call by call, bit for bit, with the class tableau (first-same-as-last reuse, end slope, increment, error estimate). For random nonlinear time-dependent right-hand sides, all 32 methods, shapes, dtypes, both signs of h and a second step after a constant of the right-hand side changed, StageJudge.tla decides the defining equations k_i = f(t+c_i h, y+h sum a_ij k_j), increment = h sum b_i k_i (sub-step composition for splitting methods) from exact-arithmetic misses; traces of implicit methods on non-convergent stage equations are validated by OdeTrace.tla (an unconverged step is never accepted).",
    note="Read-back covers explicit RK methods; implicit and splitting methods are covered by the defining-equation check, which uses the slopes the integrator holds after the step (stage_values).",
    technique="TLC model checking (Integrator.tla) + exact coefficient read-back judged by RKDataflow.tla + defining-equation judge (StageJudge.tla) + trace validation", design="6/C02"),
 "C10": dict(level="model_checking",
    text="Shear.tla: TLC checks on integer 2x2 maps that every composition of drift/kick shears has determinant one and that a palindromic composition is undone by the negative step. SymplecticJudge.tla decides (structure, exact functionals of the class tables) that the splitting schemes are compositions of pure drifts and kicks, palindromic, summing to one, and that the RK tables flagged symplectic satisfy b_i a_ij + b_j a_ji = b_i b_j; and (observations on real steps of all six symplectic-flagged methods, quadratic and nonlinear separable Hamiltonians, both signs of h, default / user kick masks through set_kick_vars and the constructor, one re-used integrator object for several states) the defect M^T J M - J, the round trip h, -h and the energy error over long runs.",
    note="Symplecticity for nonlinear H is observed through central differences of real steps (bound 1e-8); the 'every state' quantifier rests on the structural argument.",
    technique="TLC model (Shear.tla) + table identities + observed one-step maps judged by SymplecticJudge.tla", design="6/C10"),
 "C11": dict(level="model_checking",
    text="Stability.tla computes R(z) of the eight schemes with rational 1-2 stage tables in exact integer arithmetic on z = -2^k: no pole, |R| <= 1, stiff decay of the L-stable members, and supplies R(z) to the actuator; one real integrator call per lattice cell (16 implicit methods x 12 decades of |z| + the specification's cells x {real, damped oscillatory 2x2} x sign of h, plus second steps after the decay rate changed) is judged by StabilityJudge.tla: an accepted step never increases |y|, agrees with R(z), the class table is the specification's; raised tolerance errors are recorded as unobserved, cells with |z| <= 1 must be observed.",
    note="Agreement with R(z) only where the specification can supply it (rational tables, negative real axis). Stage-solver tolerance 1e-10.",
    technique="exact stability functions in TLA+ (TLC) + lattice of real steps judged by StabilityJudge.tla", design="6/C11"),
 "C14": dict(level="model_checking",
    text="Contracts.tla defines the function family (products of (x-r)^m with dyadic roots and odd/even multiplicities, jumps, constants) and the ground truth of every function x bracket cell (sign change over the bracket, sign changes inside, end-point roots); the 1716-cell lattice x scale (1e-6..1e9) x tolerance x dtype is executed on brentsroot and brentsrootvec (groups of up to 16) and BrentJudge.tla decides the contract clause by clause from exact-arithmetic facts.",
    note="'Root at an end point' is read as |f(end)| <= tol; with an even root inside or a sub-tolerance function the scalar and vectorised solver need not agree (ambiguous regime).",
    technique="TLC-generated case lattice with ground truth, executed on the real solvers, judged by BrentJudge.tla", design="6/C14"),
 "C15": dict(level="model_checking",
    text="Systems.tla defines the system family with ground truth (which systems have a root), checks the no-root claims on an integer grid and that the lattice reaches all four dispatch paths with and without a root; every cell (system x n=1..12 x array shape incl. flat residual x solver x dtype x user/finite-difference Jacobian x good/bad/singular guess) is one real solver call; SolverJudge.tla decides success => ||F|| <= 10 tol sqrt(n), no root => no success, shape preserved.",
    note="A solver that raises LinAlgError/ValueError claims no success. Residual observed with the user's own F.",
    technique="TLC-generated lattice with ground truth executed on the real solvers, judged by SolverJudge.tla", design="6/C15"),
 "C16": dict(level="model_checking",
    text="JacMaps.tla: polynomial maps with exact integer Jacobians (checked by TLC against exact central differences); DiffRHS.tla: the Jacobian dispatch as a state machine over {request at t1/t2/0, hook, assign, unhook, set order} with/without a jac attribute, explored to length 5. The generated histories are replayed on the real DiffRHS with a time-dependent right-hand side: JacJudge.tla decides per request who answered, that the right-hand side was evaluated at the requested time and near the requested state only, the value and the counters; JacobianWrapper is judged on every map x point x shape x base order x adaptive flag against the specification's Jacobian and layout.",
    note="Finite-difference accuracy allowances: 256 eps (linear), 1e-8 (quadratic), 1e-4 (non-adaptive), relative to scale.",
    technique="TLC model checking + TLC-generated histories replayed into the real code, judged by JacJudge.tla", design="6/C16"),
 "C18": dict(level="model_checking",
    text="Facade.tla model-checks the facade's own logic (sort, one integrate(t) per requested time, repeated times are no-ops, one column each) on every t_eval of length <= 4; a lattice of real solve_ivp calls (method by name/class, t_eval variants, state shapes (), (1,), (2,), (2,2), args with extra defaulted parameters, max_step, tolerances, dense, events) is compared with the same problem driven through OdeSystem; FacadeJudge.tla decides shapes, pairing, requested times, args order, max_step, result fields, bit-for-bit object-API agreement and scipy agreement at exploration level.",
    note="Backward spans without t_eval (the facade rejects t_eval there) with and without step bounds, on the time-reflected problem; distinct rtol/atol in a third of the cells. scipy agreement: end state vs DOP853 at 1e-12 within 1000 tolerance units, adaptive methods only.",
    technique="TLC small-scope model + lattice of real facade calls judged by FacadeJudge.tla", design="6/C18"),
}

NOT_YET = "check not built yet (work in progress, see DESIGN.md section 11)"

def main():
    checks = []
    na = []
    for p in props:
        pid = p["id"]
        c = CHECKS.get(pid)
        if not c:
            na.append({"property_id": pid, "reason": NOT_YET})
            continue
        checks.append({
            "property_id": pid,
            "quick_cmd": "bin/check %s --tier quick" % pid,
            "thorough_cmd": "bin/check %s --tier thorough" % pid,
            "evidence_file": "/verif/evidence/%s.json" % pid,
            "replay_cmd_template": "bin/check %s --replay {path}" % pid,
            "engine": "tlc-judge",
            "level_claimed": {"category": c["level"], "text": c["text"], "design_ref": c["design"]},
            "level_note": c["note"],
            "technique": c["technique"],
        })
    m = {
        "version": 1,
        "setup_cmd": "bin/setup",
        "hooks": {"guard": "DESOLVER_VERIF",
                  "enable": "no source hooks are needed: lib/vf observes from outside (subclassing OdeSystem, wrapped user callables, patched module collaborators); DESOLVER_VERIF is reserved and currently unused",
                  "baseline_off_cmd": "cd /repo && /venv/bin/python -m pytest -ra -q -p no:cacheprovider --timeout=900 --continue-on-collection-errors",
                  "source_commits": [], "add_only": True},
        "engines": [{"name": "tlc-judge", "path": "lib/vf/core.py",
                     "serves_properties": sorted(CHECKS.keys()),
                     "kind_free_text": "explicit TLA+ specifications in spec/ checked with TLC (design level), TLC-generated cases/behaviours replayed into the real code and traces of the real code validated by TLA+ judge/monitor modules"}],
        "checks": checks,
        "notes": "bin/check <id> [--tier quick|thorough] [--replay path]; exit 0 ok / 1 VIOLATION / 2 machinery failure. Known findings: known_findings.json.",
        "not_applicable": na,
    }
    json.dump(m, open(os.path.join(ROOT, "MANIFEST.json"), "w"), indent=1)
    print("manifest: %d checks, %d not applicable" % (len(checks), len(na)))

if __name__ == "__main__":
    main()
