#!/bin/bash
# usage: curate.sh <name> <patch> <demo.py> <check ids...>
# Confirms a seeded change in a scratch worktree of /repo HEAD (never touches /repo): the patch applies, the demo passes on the
# clean tree and fails with the patch, the repository's test-suite passes with the patch, and records which checks detect it.
# NOSUITE=1: detection pass only (the suite result of the latest full confirmation is carried by tools/mkseeded.py).
NAME=$1; PATCH=$(readlink -f "$2"); DEMO=$(readlink -f "$3"); shift 3
W=/tmp/cur_$NAME; O=/tmp/cur_${NAME}_out
rm -rf $O; mkdir -p $O
git -C /repo worktree add -f --detach $W HEAD >/dev/null 2>&1 || { echo "$NAME worktree-failed"; exit 2; }
trap 'cd /; git -C /repo worktree remove --force '$W' >/dev/null 2>&1; rm -rf '$O'/work '$O'/replays' EXIT
cd $W
if [ -f "$DEMO" ]; then PYTHONPATH=$W PYTHONWARNINGS=ignore timeout 300 /venv/bin/python "$DEMO" > $O/demo_clean.txt 2>&1; DC=$?; else DC=-1; fi
if ! git apply "$PATCH" 2> $O/apply.txt; then echo "$NAME applies=no"; exit 3; fi
if [ -f "$DEMO" ]; then PYTHONPATH=$W PYTHONWARNINGS=ignore timeout 300 /venv/bin/python "$DEMO" > $O/demo_patched.txt 2>&1; DP=$?; else DP=-1; fi
if [ -n "$NOSUITE" ]; then SUITE="carried"; else
SUITE=$(/venv/bin/python -m pytest -q -p no:cacheprovider --timeout=900 -n 6 2>&1 | tail -3 | grep -E "passed|failed|error" | head -1)
fi
DET=""
for c in "$@"; do
  out=$(cd /verif && VF_REPO=$W VF_OUT_ROOT=$O bin/check $c --tier quick 2>/dev/null)
  rc=$?
  cl=$(echo "$out" | grep "^VIOLATION" | sed 's/.*clause=\([^ ]*\).*/\1/' | sort | uniq -c | sort -rn | head -6 | awk '{print $2"("$1")"}' | tr '\n' ',')
  DET="$DET $c:rc=$rc:$cl"
done
echo "$NAME applies=yes demo_clean=$DC demo_patched=$DP suite=[$SUITE] detected=[$DET]"
